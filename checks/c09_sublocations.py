""" C09 - annotations placed inside a gene cover the nucleotides that encode them

    Oracle: the gene is laid out from a plain spec; its coding bases in transcript order are read
    off the spec (parts in Biopython order, each part reversed on the reverse strand, first
    codon_start-1 bases dropped).  Residues [s, e) are encoded by exactly the bases
    order[3s:3e].  Every location antiSMASH produces is converted to a *plain Biopython*
    location, extracted from the record sequence and translated by Biopython, and compared
    with the gene's translation; the ordered base list is compared as well (it is what makes
    the translation right for every sequence, not just the generated one).
"""

from __future__ import annotations

from types import SimpleNamespace

from hypothesis import strategies as st

from vlib import gen
from vlib.build import make_record, to_loc
from vlib.runner import Violation

PROPERTY_ID = "C09"
LEVEL = "exploration"
RULE = ("A case is one gene on a real record plus the protein ranges asked of it. Genes are built by "
        "construction: strand x 1-4 exons cut from a coding length of codon_start-1 + 3n (+ stop codon) "
        "(+ 1-2 trailing bases) with cut points biased to codon borders, introns of 0-60 bases (one junction in ~15 "
        "genes instead overlaps by 1-2 bases, the programmed-frameshift annotation), linear or "
        "circular record, one in three circular genes rotated so that the origin falls inside an exon, "
        "exactly on an exon border or inside an intron; the gene is created through CDSFeature.from_biopython "
        "with a codon_start qualifier, so the frameshift and translation "
        "paths are the real ones; non-spanning genes are also made partial (<start and/or >end), the shape in which "
        "codon_start 2/3 occurs. The sequence has no in-frame stop except an optional terminal one; start codon "
        "ATG/GTG/TTG; the /translation qualifier is absent, right, or unusable ('*' appended or inside, '-', '?', "
        "lowercase: antiSMASH must then translate the codon_start-shifted location itself). "
        "Genes up to 40 residues get ALL ranges 0<=s<e<=n; longer genes (to 330 residues) get "
        "ranges drawn around exon borders and ends. Enumeration: every 1-3 exon split of a 5-codon gene x "
        "strand x intron x every rotation of a ring that holds it, all ranges. Non-trivial: the gene has more "
        "than one part, or is on the reverse strand, or has codon_start 2/3; distinct = sha1 of the spec. "
        "Prepeptides: genes of 1-4 exons (3-4 favoured), half of them with leader/core/tail borders laid just after "
        "successive exon borders so that consecutive sections each hold an intron; every prepeptide is judged fresh and "
        "again after Record.from_biopython rebuilt it from its own features. domains_multi: 2-3 genes side by side on "
        "one record, one build_hits call, 1-3 protein ranges repeated in several genes plus private ones, hit order "
        "permuted; non-trivial when a range is shared by two genes.")
ASSUMPTIONS = [
    "Biopython's SimpleLocation/CompoundLocation.extract and Seq.translate (table 11) are the trusted base",
    "a location means its bases in Biopython's extraction order (parts in order, reverse strand parts reversed)",
    "origin-spanning genes use the documented part order: forward [a:L),[0:b); reverse [0:b),[a:L)",
    "convert_protein_position_to_dna is only judged on genes that do not span the origin: its (start, end) "
    "pair cannot express a range that wraps and the repository's tests pin coordinate order for such inputs",
    "a gene that spans the origin AND carries codon_start 2/3 is rejected by an assertion in "
    "_adjust_location_by_offset; this is counted as a rejected class, not as a violation",
]

STOPS = ("TAA", "TAG", "TGA")
SENSE = tuple(a + b + c for a in "TCAG" for b in "TCAG" for c in "TCAG" if a + b + c not in STOPS)
COMPLEMENT = {"A": "T", "C": "G", "G": "C", "T": "A"}
TABLE = 11


# --------------------------------------------------------------------------- the model

class _Lcg:
    """ a tiny deterministic generator: sequences are a pure function of the spec's seed """
    def __init__(self, seed: int) -> None:
        self.state = (seed * 2862933555777941757 + 3037000493) % (1 << 64)

    def next(self, bound: int) -> int:
        self.state = (self.state * 6364136223846793005 + 1442695040888963407) % (1 << 64)
        return (self.state >> 33) % bound


def transcript(loc: dict) -> list:
    """ base indices in the order Biopython's extract() reads them """
    out: list = []
    for start, end in loc["parts"]:
        chunk = list(range(start, end))
        if loc["strand"] == -1:
            chunk.reverse()
        out.extend(chunk)
    return out


def shifted_location(loc: dict, codon_start: int) -> dict:
    """ the location a gene has once codon_start-1 bases are removed from its 5' end (spec -> spec) """
    parts = [list(p) for p in loc["parts"]]
    drop = codon_start - 1
    if drop:
        if loc["strand"] == -1:
            parts[0][1] -= drop
        else:
            parts[0][0] += drop
    return {"parts": parts, "strand": loc["strand"]}


def build_sequence(spec: dict) -> str:
    """ background from the seed; the coding bases are then written codon by codon in transcript order.
        Where exons overlap (programmed frameshift) a base read twice keeps its first value and the
        later codon is chosen to agree with it. """
    length = spec["L"]
    rng = _Lcg(spec["seed"])
    seq = ["ACGT"[rng.next(4)] for _ in range(length)]
    order = transcript(spec["loc"])[spec["codon_start"] - 1:]
    codons = len(order) // 3
    planted = set(spec.get("tta") or [])
    reverse = spec["loc"]["strand"] == -1
    fixed: dict = {}
    for index in range(codons):
        positions = order[3 * index:3 * index + 3]
        if index == codons - 1 and spec.get("stop"):
            pick = rng.next(3)
            candidates = STOPS[pick:] + STOPS[:pick]
        elif index == 0:
            candidates = (spec.get("start", "ATG"),)
        else:
            pick = rng.next(len(SENSE))
            candidates = SENSE[pick:] + SENSE[:pick]
            if index in planted:
                candidates = ("TTA",) + candidates
        for codon in candidates:
            trial = dict(fixed)
            if all(trial.setdefault(pos, base) == base for pos, base in zip(positions, codon)):
                fixed = trial
                break
        else:
            raise AssertionError("harness: no codon fits the bases shared with the previous exon")
    for pos, base in fixed.items():
        seq[pos] = COMPLEMENT[base] if reverse else base
    return "".join(seq)


def bio_location(loc: dict):
    """ a plain Biopython location (none of antiSMASH's subclasses) """
    from Bio.SeqFeature import CompoundLocation, SimpleLocation
    parts = [SimpleLocation(s, e, loc["strand"]) for s, e in loc["parts"]]
    return parts[0] if len(parts) == 1 else CompoundLocation(parts)


def real_location(loc: dict, partial: str):
    """ the antiSMASH location for a spec; `partial` marks the 5' and/or 3' end as running off the
        sequence (<start / >end), the shape in which codon_start 2/3 occurs in real records """
    from Bio.SeqFeature import AfterPosition, BeforePosition
    from antismash.common.secmet.locations import CompoundLocation, FeatureLocation
    if not partial:
        return to_loc(loc)
    strand = loc["strand"]
    bounds = [[s, e] for s, e in loc["parts"]]
    five, three = bounds[0], bounds[-1]     # Biopython order: first part is the 5' one on both strands
    if "5" in partial:
        if strand == -1:
            five[1] = AfterPosition(five[1])
        else:
            five[0] = BeforePosition(five[0])
    if "3" in partial:
        if strand == -1:
            three[0] = BeforePosition(three[0])
        else:
            three[1] = AfterPosition(three[1])
    parts = [FeatureLocation(s, e, strand) for s, e in bounds]
    return parts[0] if len(parts) == 1 else CompoundLocation(parts)


def read_location(location) -> dict:
    """ antiSMASH/Biopython location -> spec, by attribute access only """
    return {"parts": [[int(p.start), int(p.end)] for p in location.parts],
            "strand": location.strand,
            "part_strands": [p.strand for p in location.parts]}


TRANSLATION_KINDS = ("valid", "stop_appended", "stop_inside", "gap", "unknown", "lowercase")


def translation_qualifier(kind, literal: str):
    """ the /translation qualifier a gene is given: None (absent, antiSMASH translates), the right one ("valid"),
        or one antiSMASH cannot use and has to replace by its own translation of the (codon_start-shifted)
        location: a character outside the protein alphabet - '*' appended or inside (internal stops as some
        pipelines write them), '-' (gap), '?', or lowercase letters """
    if not kind:
        return None
    right = "M" + literal[1:]
    middle = len(right) // 2
    if kind == "valid":
        return right
    if kind == "stop_appended":
        return right + "*"
    if kind == "lowercase":
        return right.lower()
    mark = {"stop_inside": "*", "gap": "-", "unknown": "?"}[kind]
    return right[:middle] + mark + right[middle + 1:]


class Case:
    """ everything the subchecks need about one generated gene """
    def __init__(self, spec: dict, shared: dict = None) -> None:
        """ shared = {"sequence", "record", "name"}: the gene lives on a record that holds other genes too
            (its spec then carries coordinates on that record; the sequence was assembled by the caller) """
        from Bio.Seq import Seq
        from Bio.SeqFeature import SeqFeature
        from antismash.common.secmet.features import CDSFeature
        self.spec = spec
        self.loc = spec["loc"]
        self.strand = self.loc["strand"]
        self.codon_start = spec["codon_start"]
        self.spanning = gen.is_span(self.loc)
        self.multi = len(self.loc["parts"]) > 1
        self.name = shared["name"] if shared else "geneA"
        if shared:
            self.sequence = shared["sequence"]
            self.record = shared["record"]
        else:
            self.sequence = build_sequence(spec)
            self.record = make_record(spec["L"], spec["circular"], self.sequence)
        self.seq = Seq(self.sequence)
        # the oracle's view of the gene
        self.order = transcript(self.loc)[self.codon_start - 1:]
        self.gene_bases = frozenset(self.order)
        self.overlap = frozenset(pos for pos in self.gene_bases if self.order.count(pos) > 1)
        extracted = bio_location(self.loc).extract(self.seq)[self.codon_start - 1:]
        mine = "".join(self.sequence[p] if self.strand != -1 else COMPLEMENT[self.sequence[p]] for p in self.order)
        assert str(extracted) == mine, "harness: transcript() disagrees with Biopython's extract()"
        self.coding = mine
        whole = len(mine) // 3
        self.all_codons = whole
        self.literal = str(Seq(mine[:3 * whole]).translate(table=TABLE))
        if spec.get("stop"):
            assert self.literal.endswith("*") and "*" not in self.literal[:-1], "harness: stop placement"
            self.literal = self.literal[:-1]
        else:
            assert "*" not in self.literal, "harness: in-frame stop generated"
        self.residues = len(self.literal)
        assert self.residues >= 1
        # what the same gene looks like if its exons are taken in coordinate order (the known defect's model)
        ordered = sorted(self.loc["parts"], reverse=self.strand == -1)
        self.order_by_coordinate = transcript({"parts": ordered, "strand": self.strand})[self.codon_start - 1:]
        # the real gene, through the real constructor
        bio = SeqFeature(real_location(self.loc, spec.get("partial", "")), type="CDS")
        bio.qualifiers["locus_tag"] = [self.name]
        if self.codon_start != 1 or spec.get("explicit_codon_start"):
            bio.qualifiers["codon_start"] = [str(self.codon_start)]
        given = translation_qualifier(spec.get("translation"), self.literal)
        if given is not None:
            bio.qualifiers["translation"] = [given]
        self.rejected = None
        self.cds = None
        try:
            self.cds = CDSFeature.from_biopython(bio, record=self.record)
        except AssertionError as err:
            if self.spanning and self.codon_start != 1 \
                    and _exc_detail(err)["where"].endswith("locations.py:_adjust_location_by_offset"):
                self.rejected = "span_codon_start_rejected"
            else:
                raise Violation("gene_construction", _exc_detail(err)) from err
        except Exception as err:  # pylint: disable=broad-except
            raise Violation("gene_construction", _exc_detail(err)) from err

    def check_gene(self) -> None:
        """ the gene itself: location shifted by codon_start, translation as Biopython gives it """
        got = read_location(self.cds.location)
        want = shifted_location(self.loc, self.codon_start)
        if got["parts"] != want["parts"] or got["strand"] != self.strand:
            raise Violation("gene_location", {"got": got, "want": want})
        translation = self.cds.translation
        if len(translation) != self.residues or translation[1:] != self.literal[1:] \
                or translation[0] not in ("M", self.literal[0]):
            raise Violation("gene_translation", {"got": translation, "biopython": self.literal})

    def expected(self, start: int, end: int) -> list:
        return self.order[3 * start:3 * end]


def _exc_detail(err: BaseException) -> dict:
    import traceback
    where = ""
    for frame in reversed(traceback.extract_tb(err.__traceback__)):
        if "/antismash/" in frame.filename:
            where = f"{frame.filename.split('/antismash/', 1)[1]}:{frame.name}"
            break
    return {"exception": type(err).__name__, "message": str(err)[:200], "where": where}


def judge(case: Case, start: int, end: int, location, translation: str = None) -> dict | None:
    """ Compares one produced location with the statement; returns None or a failure record.
        `translation` is the stretch the annotation itself claims (defaults to the gene's translation slice).
    """
    want = case.expected(start, end)
    got = read_location(location)
    got_order = transcript(got)
    failure = None
    claimed = case.cds.translation[start:end] if translation is None else translation

    def fail(clause: str, **extra) -> dict:
        detail = {"range": [start, end], "got": {"parts": got["parts"], "strand": got["strand"]},
                  "want_bases": _compress(want)}
        detail.update(extra)
        return {"clause": clause, "detail": detail, "got_order": got_order}

    if any(not s < e for s, e in got["parts"]):
        return fail("malformed", problem="empty or inverted part")
    if got["strand"] != case.strand or any(s != case.strand for s in got["part_strands"]):
        return fail("strand", part_strands=got["part_strands"])
    if len(got_order) != 3 * (end - start):
        failure = fail("length", got_length=len(got_order), want_length=3 * (end - start))
    elif not set(got_order) <= case.gene_bases:
        failure = fail("inside", outside=sorted(set(got_order) - case.gene_bases)[:6])
    else:
        extracted = bio_location(got).extract(case.seq)
        protein = str(extracted.translate(table=TABLE))
        literal = case.literal[start:end]
        same = protein == literal and (claimed == literal or (start == 0 and claimed == "M" + literal[1:]))
        if not same:
            failure = fail("translation", extracted=protein, claimed=claimed, gene_translation=literal)
        elif got_order != want:
            failure = fail("bases", note="translation equal by coincidence, bases differ")
    return failure


def _compress(order: list) -> list:
    """ ordered base list -> runs [first, last] (for readable details) """
    runs: list = []
    for pos in order:
        if runs and abs(pos - runs[-1][1]) == 1 and (len(runs[-1]) < 3 or runs[-1][2] == pos - runs[-1][1]):
            step = pos - runs[-1][1]
            runs[-1] = [runs[-1][0], pos, step]
        else:
            runs.append([pos, pos])
    return [r[:2] for r in runs]


def explained_by_coordinate_order(case: Case, start: int, end: int, failure: dict) -> bool:
    """ the known defect: exons of an origin-spanning gene are walked in coordinate order.
        A failure is explained when the code raised one of its own range errors, or when the bases it
        returned are the ones the coordinate-order walk gives. """
    if not case.spanning:
        return False
    if failure["clause"] == "exception":
        detail = failure["detail"]
        return detail["exception"] in ("ValueError", "AssertionError") and (
            detail["where"].endswith("locations.py:convert_protein_position_to_dna")
            or detail["where"].endswith("feature.py:get_sub_location_from_protein_coordinates"))
    model = case.order_by_coordinate[3 * start:3 * end]
    return failure.get("got_order") == model


def explained_by_stop_codon(case: Case, start: int, end: int, code: tuple, failure: dict) -> str | None:
    """ the known prepeptide defect: sections are measured from len(location) // 3, which counts the
        terminal stop codon.  Two faces: the last section simply runs on over the stop codon
        ("appended", pinned by the repository's thiopeptide test), or - with a tail - the core/tail
        border sits one codon late ("shifted").  Explained only by exactly those bases. """
    if case.all_codons == case.residues or failure["clause"] == "exception":
        return None
    got = failure.get("got_order")
    if end == case.residues and got == case.order[3 * start:3 * case.all_codons]:
        return "stop_codon_appended"
    if got == case.order[3 * code[0]:3 * code[1]]:
        return "stop_codon_shifted"
    return None


def explained_by_overlap(case: Case, start: int, end: int, failure: dict) -> bool:
    """ the known defect for exons that overlap by 1-2 bases (programmed frameshift): a range that begins
        or ends on a base of the overlap gets a location of the wrong length, because the mapping asks
        'which exon holds this coordinate' and two do """
    if not case.overlap:
        return False
    want = case.expected(start, end)
    if not (want[0] in case.overlap or want[-1] in case.overlap):
        return False
    if failure["clause"] == "exception":
        # the other face (seen once the mapping itself is repaired): the right location for such a range
        # has two parts with the same end, which Feature() refuses, so the domain cannot be created
        detail = failure["detail"]
        return (detail["exception"] == "ValueError" and "overlapping exons" in detail["message"]
                and detail["where"].endswith("feature.py:__init__"))
    return failure["clause"] == "length"


def run_ranges(case: Case, ranges: list, produce, label: str, code_range=None, extra_explain=None) -> dict:
    """ produce(s, e) -> (location, claimed translation or None). Collects failures over all ranges and
        raises: the first failure no known defect explains, else (if any) the known defect's clause.
        code_range(s, e) -> the range a known defect makes the code use instead (prepeptides only). """
    failures = []
    for start, end in ranges:
        try:
            location, claimed = produce(start, end)
        except Violation:
            raise
        except Exception as err:  # pylint: disable=broad-except
            detail = _exc_detail(err)
            detail["range"] = [start, end]
            failure = {"clause": "exception", "detail": detail}
        else:
            failure = judge(case, start, end, location, claimed)
        if failure is None:
            continue
        used = code_range(start, end) if code_range else (start, end)
        first_guess = extra_explain(start, end, failure) if extra_explain is not None else None
        if first_guess is not None:
            failure["explained"] = first_guess
        elif explained_by_coordinate_order(case, used[0], used[1], failure):
            failure["explained"] = "span_coordinate_order"
        elif explained_by_overlap(case, used[0], used[1], failure):
            failure["explained"] = "overlap_boundary"
        elif code_range:
            failure["explained"] = explained_by_stop_codon(case, start, end, used, failure)
        else:
            failure["explained"] = None
        failures.append(failure)
    for failure in failures:
        if failure["explained"] is None:
            raise Violation(f"{label}_{failure['clause']}", failure["detail"])
    if failures:
        first = failures[0]
        kinds = sorted({f["explained"] for f in failures})
        if len(kinds) > 1:
            raise Violation(f"{label}_{first['clause']}", first["detail"])
        raise Violation(f"{label}_{kinds[0]}",
                        {"first": first["detail"], "first_clause": first["clause"], "failed_ranges": len(failures),
                         "ranges": len(ranges), "all_explained_by": kinds[0]})
    return {"ranges": len(ranges)}


def all_ranges(count: int) -> list:
    return [[s, e] for s in range(count) for e in range(s + 1, count + 1)]


def ranges_of(case: Case) -> list:
    ranges = case.spec.get("ranges", "all")
    if ranges == "all":
        return all_ranges(case.residues)
    return [[min(s, case.residues - 1), min(max(e, min(s, case.residues - 1) + 1), case.residues)] for s, e in ranges]


def borders(case: Case) -> tuple:
    """ offsets (in coding bases) at which the transcript jumps: (on a codon border, inside a codon) """
    on, mid = 0, 0
    for index in range(1, min(len(case.order), 3 * case.all_codons)):
        if abs(case.order[index] - case.order[index - 1]) != 1:
            if index % 3 == 0:
                on += 1
            else:
                mid += 1
    return on, mid


def classes_of(case: Case) -> list:
    spec = case.spec
    on, mid = borders(case)
    kind = "span" if case.spanning else ("multi" if case.multi else "simple")
    labels = [f"kind_{kind}", f"strand_{case.strand}", f"codon_start_{case.codon_start}",
              "stop_codon" if spec.get("stop") else "no_stop", f"trailing_{len(case.order) % 3}",
              f"start_{spec.get('start', 'ATG')}", "circular" if spec["circular"] else "linear",
              f"{kind}_strand_{case.strand}"]
    labels.append(f"translation_{spec.get('translation') or 'absent'}")
    if spec.get("translation") and spec.get("translation") != "valid" and case.codon_start != 1:
        labels.append(f"unusable_translation_with_codon_start_strand_{case.strand}")
    if spec.get("partial"):
        labels.append(f"partial_{spec['partial']}")
    if case.overlap:
        labels.append(f"exons_overlap_by_{len(case.overlap)}")
    if on:
        labels.append("border_on_codon")
    if mid:
        labels.append("border_inside_codon")
    if case.spanning:
        parts = case.loc["parts"]
        touching = any(p[1] == spec["L"] for p in parts) and any(p[0] == 0 for p in parts)
        labels.append("span_origin_in_exon_or_on_border" if touching else "span_origin_in_intron")
    if any(a[1] == b[0] or b[1] == a[0] for a in case.loc["parts"] for b in case.loc["parts"] if a is not b):
        labels.append("touching_exons")
    return labels


def nontrivial(case: Case) -> bool:
    return case.multi or case.strand == -1 or case.codon_start != 1


def _rejected(case: Case) -> dict:
    return {"nontrivial": False, "classes": [case.rejected]}


# --------------------------------------------------------------------------- subcheck: the mapping itself

def check_sub(spec: dict) -> dict:
    """ Feature.get_sub_location_from_protein_coordinates and convert_protein_position_to_dna """
    from antismash.common.secmet.locations import convert_protein_position_to_dna
    case = Case(spec)
    if case.rejected:
        return _rejected(case)
    case.check_gene()
    ranges = ranges_of(case)

    if not case.spanning:
        for start, end in ranges:
            want = case.expected(start, end)
            try:
                pair = convert_protein_position_to_dna(start, end, case.cds.location)
                method = case.cds.location.convert_protein_position_to_dna(start, end)
            except Exception as err:  # pylint: disable=broad-except
                detail = _exc_detail(err)
                detail["range"] = [start, end]
                raise Violation("convert_exception", detail) from err
            # the coordinates of the range's two ends: lowest base and one past the highest
            expect = (want[0], want[-1] + 1) if case.strand != -1 else (want[-1], want[0] + 1)
            if tuple(pair) != expect or tuple(method) != expect or not all(type(x) is int for x in pair):
                raise Violation("convert_pair", {"range": [start, end], "got": [repr(x) for x in pair],
                                                 "method": list(map(int, method)), "want": list(expect)})

    def produce(start: int, end: int):
        return case.cds.get_sub_location_from_protein_coordinates(start, end), None

    info = run_ranges(case, ranges, produce, "sub")
    labels = classes_of(case)
    labels.append("ranges_all" if spec.get("ranges", "all") == "all" else "ranges_sampled")
    labels.append(f"ranges_{_bucket(info['ranges'])}")
    return {"nontrivial": nontrivial(case), "classes": labels}


def _bucket(count: int) -> str:
    for bound in (10, 100, 400):
        if count <= bound:
            return f"le{bound}"
    return "gt400"


# --------------------------------------------------------------------------- subcheck: prepeptides

def check_prepeptide(spec: dict) -> dict:
    """ Prepeptide.to_biopython: leader / core / tail features, of the fresh prepeptide and of the one
        Record.from_biopython rebuilds from those features (Prepeptide.from_biopython, build_location_from_others) """
    from antismash.common.secmet.features import Prepeptide
    from antismash.common.secmet.locations import location_from_string
    case = Case(spec)
    if case.rejected:
        return _rejected(case)
    case.check_gene()
    translation = case.cds.translation
    total = len(translation)
    leader_len = min(spec["leader"], total - 1)
    tail_len = min(spec["tail"], total - 1 - leader_len)
    leader = translation[:leader_len]
    core = translation[leader_len:total - tail_len]
    tail = translation[total - tail_len:] if tail_len else ""
    assert leader + core + tail == translation and core
    stretches = {"leader": (0, leader_len), "core": (leader_len, total - tail_len), "tail": (total - tail_len, total)}
    claimed = {"leader": leader, "core": core, "tail": tail}
    try:
        peptide = Prepeptide(case.cds.location, "lanthipeptide", core, "geneA_lanthipeptide", "verif",
                             leader=leader, tail=tail)
    except Exception as err:  # pylint: disable=broad-except
        raise Violation("prepeptide_construction", _exc_detail(err)) from err
    produced: dict = {}
    failure_exc = None
    try:
        features = peptide.to_biopython()
    except Exception as err:  # pylint: disable=broad-except
        failure_exc = err
        features = []
    if failure_exc is not None:
        detail = _exc_detail(failure_exc)
        failure = {"clause": "exception", "detail": detail}
        if explained_by_coordinate_order(case, 0, 1, failure):
            raise Violation("prepeptide_span_coordinate_order", {"first": detail, "first_clause": "exception",
                                                                 "all_explained_by": "span_coordinate_order"})
        raise Violation("prepeptide_exception", detail) from failure_exc
    for feature in features:
        section = feature.qualifiers.get("prepeptide", ["?"])[0]
        if section in produced or section not in stretches:
            raise Violation("prepeptide_sections", {"sections": [f.qualifiers.get("prepeptide") for f in features]})
        produced[section] = feature
    wanted_sections = {name for name, (lo, hi) in stretches.items() if hi > lo}
    if set(produced) != wanted_sections:
        raise Violation("prepeptide_sections", {"got": sorted(produced), "want": sorted(wanted_sections)})
    # the locations written into the core's qualifiers position the same annotations
    core_quals = produced["core"].qualifiers
    for name in ("leader", "tail"):
        key = f"{name}_location"
        if name in produced:
            text = core_quals.get(key, [None])[0]
            if text is None or read_location(location_from_string(text))["parts"] != \
                    read_location(produced[name].location)["parts"]:
                raise Violation("prepeptide_qualifier_location", {"section": name, "qualifier": text,
                                                                  "feature": str(produced[name].location)})
    order = [name for name in ("leader", "core", "tail") if name in produced]
    ranges = [list(stretches[name]) for name in order]
    by_range = {tuple(stretches[name]): name for name in order}

    def produce(start: int, end: int):
        name = by_range[(start, end)]
        return produced[name].location, claimed[name]

    # the ranges Prepeptide.to_biopython uses today when the gene has more codons than residues
    counted = len(case.order) // 3
    code = {"leader": (0, leader_len), "core": (leader_len, counted - tail_len), "tail": (counted - tail_len, counted)}

    def code_range(start: int, end: int) -> tuple:
        return code[by_range[(start, end)]]

    # a failure that a known defect explains is held back so that the re-read prepeptide is judged too
    pending = None
    try:
        run_ranges(case, ranges, produce, "prepeptide", code_range)
    except Violation as vio:
        if not (isinstance(vio.detail, dict) and vio.detail.get("all_explained_by")):
            raise
        pending = vio

    # the same annotations after the record has been written out and read back: Record.from_biopython
    # rebuilds the prepeptide from its core feature (its location from the stored leader/core/tail locations)
    # and its sections are produced again from that
    written = [read_location(produced[name].location) for name in order]
    try:
        reread = _reread_prepeptide(case, peptide)
    except Violation as vio:
        # known (C09-overlap-same-end-refused): with exons overlapping by 1-2 bases a section that ends on the
        # shared base has two parts with one end; antiSMASH refuses such a location when the record is read
        same_end = any(len({end for _, end in section["parts"]}) < len(section["parts"]) for section in written)
        if (vio.clause == "reread_prepeptide_exception" and case.overlap and same_end
                and "location contains overlapping exons" in vio.detail["message"]):
            raise pending or Violation("reread_prepeptide_overlap_boundary",
                                       {"first": vio.detail, "first_clause": "exception", "failed_ranges": 1,
                                        "ranges": len(ranges), "all_explained_by": "overlap_boundary"}) from vio
        raise
    # known (C09-prepeptide-rebuilt-reverse-touching, what is left of the repaired hull-adjacency defect): what
    # build_location_from_others makes of reverse-strand sections of which one starts where the previous one ends
    rebuilt_model = _rebuild_by_hull(written, case.strand)

    def explain_hull(start: int, end: int, failure: dict):
        if rebuilt_model is None or not case.spanning:
            return None
        if failure["clause"] == "exception":
            return "reverse_touching_merge" if failure["detail"]["where"].endswith(
                "feature.py:get_sub_location_from_protein_coordinates") else None
        walked = transcript({"parts": rebuilt_model, "strand": case.strand})
        if end >= case.residues:      # the last section runs to the end of the (rebuilt, longer) location
            end = len(walked) // 3
        return "reverse_touching_merge" if failure.get("got_order") == walked[3 * start:3 * end] else None

    again: dict = {}
    for feature in reread:
        section = feature.qualifiers.get("prepeptide", ["?"])[0]
        if section in again or section not in stretches:
            raise Violation("reread_prepeptide_sections", {"sections": [f.qualifiers.get("prepeptide") for f in reread]})
        again[section] = feature
    if set(again) != wanted_sections:
        raise Violation("reread_prepeptide_sections", {"got": sorted(again), "want": sorted(wanted_sections)})

    def produce_again(start: int, end: int):
        name = by_range[(start, end)]
        return again[name].location, claimed[name]

    try:
        run_ranges(case, ranges, produce_again, "reread_prepeptide", code_range, explain_hull)
    except Violation as vio:
        if not (isinstance(vio.detail, dict) and vio.detail.get("all_explained_by")):
            raise
        # the known defects look the same before and after; report them under the first pass's clause
        pending = pending or vio
    if pending is not None:
        raise pending

    labels = classes_of(case)
    labels.append("sections_" + "".join(name[0] for name in order))
    compound = [name for name in order if len(produced[name].location.parts) > 1]
    labels.append(f"sections_over_introns_{len(compound)}")
    if any(a in compound and b in compound for a, b in zip(order, order[1:])):
        labels.append("consecutive_sections_over_introns")
        labels.append(f"consecutive_sections_over_introns_strand_{case.strand}")
    return {"nontrivial": nontrivial(case), "classes": labels}


def _rebuild_by_hull(sections: list, strand: int):
    """ build_location_from_others as it is today, on plain part lists: a section is merged into what was built
        when its first part starts where the last part built so far ends.  On the reverse strand parts that follow
        each other in the transcript never ascend, so such a merge joins the wrong ends (only possible when the gene
        is wound round the whole ring).  Returns the rebuilt parts if at least one such merge happened, else None. """
    built = [list(part) for part in sections[0]["parts"]]
    false_merge = False
    for section in sections[1:]:
        parts = [list(part) for part in section["parts"]]
        if parts[0][0] == built[-1][1]:
            if strand == -1:
                false_merge = True
            built = built[:-1] + [[built[-1][0], parts[0][1]]] + parts[1:]
        else:
            built = built + parts
    return built if false_merge else None


def _reread_prepeptide(case: Case, peptide) -> list:
    """ fresh biopython features of the prepeptide -> a SeqRecord holding just them -> Record.from_biopython
        -> the one Prepeptide it rebuilt -> its biopython features """
    from Bio.SeqRecord import SeqRecord
    from antismash.common.secmet.features import Prepeptide
    from antismash.common.secmet.record import Record
    try:
        written = peptide.to_biopython()
        bio_record = SeqRecord(case.seq, id="rec1", name="rec1", features=written,
                               annotations={"molecule_type": "DNA",
                                            "topology": "circular" if case.spec["circular"] else "linear"})
        record = Record.from_biopython(bio_record, taxon="bacteria")
        rebuilt = [motif for motif in record.get_cds_motifs() if isinstance(motif, Prepeptide)]
        if len(rebuilt) != 1:
            raise Violation("reread_prepeptide_lost", {"prepeptides": len(rebuilt), "features_written": len(written)})
        return rebuilt[0].to_biopython()
    except Violation:
        raise
    except Exception as err:  # pylint: disable=broad-except
        raise Violation("reread_prepeptide_exception", _exc_detail(err)) from err


# --------------------------------------------------------------------------- subcheck: domains and motifs

def check_domains(spec: dict) -> dict:
    """ the callers that turn protein hits into features: nrps_pks generate_domain_features /
        generate_motif_features and hmmer.build_hits + HmmerResults.add_to_record """
    from antismash.common import hmmer, pfamdb
    from antismash.common.hmmscan_refinement import HMMResult
    from antismash.common.secmet.features import CDSFeature
    from antismash.detection.nrps_pks_domains.domain_identification import (
        generate_domain_features, generate_motif_features)
    case = Case(spec)
    if case.rejected:
        return _rejected(case)
    case.check_gene()
    ranges = ranges_of(case)
    cds = case.cds
    by_range: dict = {}
    unique: list = []
    for pair in ranges:
        if tuple(pair) not in by_range:
            by_range[tuple(pair)] = len(unique)
            unique.append(pair)

    # nrps_pks domains and motifs
    hits = [HMMResult(f"dom{i}", s, e, 1e-10, 50.0) for i, (s, e) in enumerate(unique)]
    state: dict = {}

    # all hits in one call, the way the callers do it; if that raises, hit by hit so that the failure
    # is attributed to the range that caused it
    def produce_domain(start: int, end: int):
        if "domains" not in state:
            try:
                state["domains"] = generate_domain_features(cds, hits)
            except Exception:  # pylint: disable=broad-except
                state["domains"] = None
        hit = hits[by_range[(start, end)]]
        found = state["domains"] if state["domains"] is not None else generate_domain_features(cds, [hit])
        feature = found[hit]
        _check_protein_location(feature, start, end, "domain")
        return feature.location, feature.translation

    def produce_motif(start: int, end: int):
        if "motifs" not in state:
            try:
                state["motifs"] = generate_motif_features(cds, hits)
            except Exception:  # pylint: disable=broad-except
                state["motifs"] = None
        index = by_range[(start, end)]
        feature = state["motifs"][index] if state["motifs"] is not None else generate_motif_features(cds, [hits[index]])[0]
        _check_protein_location(feature, start, end, "motif")
        return feature.location, feature.translation

    run_ranges(case, unique, produce_domain, "domain")
    run_ranges(case, unique, produce_motif, "motif")

    # hmmer: hsps -> HmmerHit (location as text) -> PFAMDomain in the record
    database = "/verif-db/pfam/35.0/Pfam-A.hmm"
    pfamdb.KNOWN_MAPPINGS[database] = {f"prof{i}": f"PF{i:05d}" for i in range(len(unique))}
    case.record.add_cds_feature(cds)
    results = []
    for index, (start, end) in enumerate(unique):
        hsp = SimpleNamespace(bitscore=30.0, evalue=1e-8, query_id=cds.get_name(), query_start=start,
                              query_end=end, hit_id=f"prof{index}", hit_description="verif profile")
        results.append(SimpleNamespace(id=f"label{index}", hsps=[hsp]))

    def add_hits(which: list, tool: str) -> list:
        built = hmmer.build_hits(case.record, which, 10.0, 1e-3, database)
        if len(built) != len(which):
            raise Violation("pfam_hits_lost", {"built": len(built), "want": len(which)})
        hmmer.HmmerResults(case.record.id, 1e-3, 10.0, database, tool, built).add_to_record(case.record)
        return built

    def produce_pfam(start: int, end: int):
        index = by_range[(start, end)]
        if "hits" not in state:
            try:
                state["hits"] = add_hits(results, "verifhmmer")
            except Violation:
                raise
            except Exception:  # pylint: disable=broad-except
                state["hits"] = None
                # a failed batch may have added some domains already: start again on a fresh record
                state["record"] = make_record(spec["L"], spec["circular"], case.sequence)
                state["record"].add_cds_feature(CDSFeature.from_biopython(cds.to_biopython()[0], record=state["record"]))
        if state["hits"] is not None:
            hit = state["hits"][index]
            record = case.record
        else:
            record = state["record"]
            built = hmmer.build_hits(record, [results[index]], 10.0, 1e-3, database)
            hmmer.HmmerResults(record.id, 1e-3, 10.0, database, f"verifhmmer{index}", built).add_to_record(record)
            hit = built[0]
        feature = [f for f in record.get_pfam_domains() if f.identifier == f"PF{index:05d}"]
        if len(feature) != 1:
            raise Violation("pfam_hits_lost", {"identifier": f"PF{index:05d}", "found": len(feature)})
        _check_protein_location(feature[0], start, end, "pfam")
        if hit.location != str(feature[0].location):
            raise Violation("pfam_location_text", {"hit": hit.location, "feature": str(feature[0].location)})
        return feature[0].location, feature[0].translation

    try:
        run_ranges(case, unique, produce_pfam, "pfam")
    finally:
        pfamdb.KNOWN_MAPPINGS.pop(database, None)
    labels = classes_of(case)
    return {"nontrivial": nontrivial(case), "classes": labels}


def check_domains_multi(spec: dict) -> dict:
    """ hmmer.build_hits + HmmerResults.add_to_record with SEVERAL genes in one call (the way full_hmmer,
        cluster_hmmer, tigrfam and rrefinder use it): hits of different genes, some at exactly the same
        protein coordinates; each resulting PFAM domain is judged against ITS OWN gene """
    from antismash.common import hmmer, pfamdb
    from antismash.common.secmet.locations import location_from_string
    genes = spec["genes"]
    sequences = [build_sequence(gene) for gene in genes]
    sequence = "".join(sequences)
    record = make_record(len(sequence), False, sequence)
    cases = []
    offset = 0
    for index, gene in enumerate(genes):
        moved = dict(gene, L=len(sequence), circular=False,
                     loc=dict(gene["loc"], parts=[[s + offset, e + offset] for s, e in gene["loc"]["parts"]]))
        case = Case(moved, shared={"sequence": sequence, "record": record, "name": f"gene{index}"})
        assert not case.rejected and not case.spanning and not case.overlap
        case.check_gene()
        try:
            record.add_cds_feature(case.cds)
        except Exception as err:  # pylint: disable=broad-except
            raise Violation("pfam_multi_gene_refused", _exc_detail(err)) from err
        cases.append(case)
        offset += gene["L"]

    hits = []
    for gene_index, start, end in spec["hits"]:
        residues = cases[gene_index].residues
        start = min(start, residues - 1)
        hits.append((gene_index, start, min(max(end, start + 1), residues)))
    # one result per gene (hmmscan reports per query), hsps in the order the hits were drawn
    results: dict = {}
    for number, (gene_index, start, end) in enumerate(hits):
        name = cases[gene_index].name
        hsp = SimpleNamespace(bitscore=30.0, evalue=1e-8, query_id=name, query_start=start, query_end=end,
                              hit_id=f"prof{number}", hit_description="verif profile")
        results.setdefault(name, SimpleNamespace(id=name, hsps=[])).hsps.append(hsp)
    database = "/verif-db/pfam/35.0/Pfam-A.hmm"
    pfamdb.KNOWN_MAPPINGS[database] = {f"prof{i}": f"PF{i:05d}" for i in range(len(hits))}
    try:
        try:
            built = hmmer.build_hits(record, list(results.values()), 10.0, 1e-3, database)
            hmmer.HmmerResults(record.id, 1e-3, 10.0, database, "verifhmmer", built).add_to_record(record)
        except Exception as err:  # pylint: disable=broad-except
            raise Violation("pfam_multi_exception", _exc_detail(err)) from err
    finally:
        pfamdb.KNOWN_MAPPINGS.pop(database, None)
    by_profile = {hit.domain: hit for hit in built}
    domains = {domain.identifier: domain for domain in record.get_pfam_domains()}
    if len(built) != len(hits) or len(by_profile) != len(hits) or len(domains) != len(hits):
        raise Violation("pfam_multi_hits_lost", {"hits": len(hits), "built": len(built), "features": len(domains)})
    for number, (gene_index, start, end) in enumerate(hits):
        case = cases[gene_index]
        hit = by_profile[f"prof{number}"]
        feature = domains[f"PF{number:05d}"]
        where = {"gene": gene_index, "gene_location": case.loc["parts"], "gene_strand": case.strand, "hit": number}
        if hit.locus_tag != case.name or feature.locus_tag != case.name:
            raise Violation("pfam_multi_gene_name", dict(where, hit=hit.locus_tag, feature=feature.locus_tag))
        _check_protein_location(feature, start, end, "pfam_multi")
        if (hit.protein_start, hit.protein_end) != (start, end):
            raise Violation("pfam_multi_protein_location", dict(where, got=[hit.protein_start, hit.protein_end]))
        for label, location, claimed in (("hit", location_from_string(hit.location), hit.translation),
                                         ("feature", feature.location, feature.translation)):
            failure = judge(case, start, end, location, claimed)
            if failure is not None:
                detail = dict(failure["detail"], **where)
                detail["judged"] = label
                raise Violation(f"pfam_multi_{failure['clause']}", detail)

    # what was generated
    users: dict = {}
    for gene_index, start, end in hits:
        users.setdefault((start, end), set()).add(gene_index)
    shared = [sorted(found) for found in users.values() if len(found) > 1]
    labels = [f"genes_{len(genes)}", f"hits_{_bucket(len(hits))}"]
    if shared:
        labels.append("same_protein_range_in_two_genes")
        if any(len({cases[g].strand for g in found}) > 1 for found in shared):
            labels.append("same_range_genes_on_both_strands")
        if any(any(cases[g].multi for g in found) for found in shared):
            labels.append("same_range_gene_with_introns")
        if any(len({len(cases[g].loc["parts"]) for g in found}) > 1 for found in shared):
            labels.append("same_range_different_exon_counts")
    if len(set(hits)) < len(hits):
        labels.append("same_hit_twice_in_one_gene")
    return {"nontrivial": bool(shared), "classes": labels}


def _check_protein_location(feature, start: int, end: int, label: str) -> None:
    got = (int(feature.protein_location.start), int(feature.protein_location.end))
    if got != (start, end):
        raise Violation(f"{label}_protein_location", {"got": list(got), "want": [start, end]})


# --------------------------------------------------------------------------- subcheck: TTA markers

def _linear_marker(case: Case, offset: int) -> list:
    """ where `location.start + offset` / `location.end - offset - 3` puts a marker (the known defect's model) """
    low = min(case.gene_bases)
    high = max(case.gene_bases) + 1
    if case.strand == 1:
        return list(range(low + offset, low + offset + 3))
    return list(range(high - offset - 1, high - offset - 4, -1))


def check_tta(spec: dict) -> dict:
    """ TTAResults.new_feature_from_other for every codon of the gene, and tta.detect on a region holding the gene """
    from antismash.modules.tta.tta import TTAResults, detect
    case = Case(spec)
    if case.rejected:
        return _rejected(case)
    case.check_gene()
    cds = case.cds
    results = TTAResults(case.record.id, 1.0, 0.0)
    codons = len(case.order) // 3
    failures = []
    split = 0
    unmarked_split = 0
    shifted = shifted_location(case.loc, case.codon_start)
    owners = [number for number, (lo, hi) in enumerate(shifted["parts"]) for _ in range(lo, hi)]
    for index in range(codons):
        contiguous = len({owners[p] for p in range(3 * index, 3 * index + 3)}) == 1   # inside one exon
        if not contiguous:
            split += 1
        try:
            marker = results.new_feature_from_other(cds, 3 * index)
        except Exception as err:  # pylint: disable=broad-except
            detail = _exc_detail(err)
            detail["codon"] = index
            # start + offset arithmetic on a multi-part gene can run off the front of the record
            negative = (case.multi and min(_linear_marker(case, 3 * index)) < 0 and detail["exception"] == "ValueError"
                        and "negative coordinate" in detail["message"])
            failures.append({"clause": "exception", "detail": detail, "explained": negative})
            continue
        if marker is None:
            # no annotation placed: nothing for the statement to constrain when a single 3-base marker
            # cannot cover the codon (it lies in two exons); otherwise the function failed to do its job
            if contiguous:
                failures.append({"clause": "no_marker", "detail": {"codon": index}, "explained": False})
            else:
                unmarked_split += 1
            continue
        failure = _judge_marker(case, index, marker.location)
        if failure is not None:
            failure["explained"] = case.multi and failure["got_order"] == _linear_marker(case, 3 * index)
            failures.append(failure)

    # the module's own entry point: a region around the gene, markers for exactly the in-frame TTA codons
    detect_failures, in_frame = _check_detect(case, detect)
    failures.extend(detect_failures)

    for failure in failures:
        if not failure["explained"]:
            raise Violation(f"tta_{failure['clause']}", failure["detail"])
    if failures:
        raise Violation("tta_linear_offset_in_multipart_gene",
                        {"first": failures[0]["detail"], "first_clause": failures[0]["clause"],
                         "failed": len(failures), "codons": codons,
                         "all_explained_by_start_plus_offset": True})
    labels = classes_of(case)
    if split:
        labels.append("codon_split_by_intron")
    if unmarked_split:
        labels.append("split_codon_left_unmarked")
    labels.append("in_frame_tta_%s" % ("0" if not in_frame else ("1" if in_frame == 1 else "many")))
    labels.append("detect_marked_every_tta" if case.detect_complete else "detect_marker_count_differs")
    return {"nontrivial": nontrivial(case), "classes": labels}


def _judge_marker(case: Case, index: int, location) -> dict | None:
    want = case.order[3 * index:3 * index + 3]
    got = read_location(location)
    got_order = transcript(got)

    def fail(clause: str, **extra) -> dict:
        detail = {"codon": index, "got": {"parts": got["parts"], "strand": got["strand"]}, "want_bases": want}
        detail.update(extra)
        return {"clause": clause, "detail": detail, "got_order": got_order}

    if got["strand"] != case.strand:
        return fail("strand")
    if len(got_order) != 3:
        return fail("length")
    if not set(got_order) <= case.gene_bases:
        return fail("inside", outside=sorted(set(got_order) - case.gene_bases))
    extracted = str(bio_location(got).extract(case.seq))
    codon = case.coding[3 * index:3 * index + 3]
    if extracted != codon:
        return fail("codon", extracted=extracted, gene_codon=codon)
    if got_order != want:
        return fail("bases")
    return None


def _check_detect(case: Case, detect) -> tuple:
    from antismash.common.secmet.features import SubRegion
    from antismash.common.secmet.locations import FeatureLocation
    record = case.record
    length = case.spec["L"]
    record.add_cds_feature(case.cds)
    record.add_subregion(SubRegion(FeatureLocation(0, length, 1), tool="verif", label="all"))
    record.create_regions()
    if case.cds not in record.get_cds_features_within_regions():
        raise AssertionError("harness: the gene is not inside the region")
    options = SimpleNamespace(tta_threshold=0.0)
    failures = []
    codons = len(case.order) // 3
    in_frame = [i for i in range(codons) if case.coding[3 * i:3 * i + 3] == "TTA"]
    try:
        found = detect(record, options)
    except Exception as err:  # pylint: disable=broad-except
        detail = _exc_detail(err)
        negative = (case.multi and detail["exception"] == "ValueError" and "negative coordinate" in detail["message"]
                    and any(min(_linear_marker(case, 3 * i)) < 0 for i in in_frame))
        return [{"clause": "detect_exception", "detail": detail, "explained": negative}], len(in_frame)
    # the statement constrains the markers that exist: each must be an in-frame TTA codon of the gene
    # (whether every TTA codon gets a marker is not part of it; the count is only recorded)
    for feature in found.features:
        got_order = transcript(read_location(feature.location))
        if any(case.order[3 * i:3 * i + 3] == got_order for i in in_frame) \
                and read_location(feature.location)["strand"] == case.strand:
            continue
        # a wrong marker: report it against the codon the start+offset arithmetic was aiming at, if any
        linear = [i for i in in_frame if _linear_marker(case, 3 * i) == got_order]
        aimed = linear[0] if linear else (in_frame[0] if in_frame else 0)
        failure = _judge_marker(case, aimed, feature.location)
        assert failure is not None
        failure["clause"] = "detect_" + failure["clause"]
        failure["explained"] = bool(case.multi and linear)
        failures.append(failure)
    case.detect_complete = len(found.features) == len(in_frame)
    return failures, len(in_frame)


SUBCHECKS = {
    "sub": check_sub,
    "sub_enum": check_sub,
    "prepeptide": check_prepeptide,
    "domains": check_domains,
    "domains_multi": check_domains_multi,
    "tta": check_tta,
    "tta_enum": check_tta,
}


# --------------------------------------------------------------------------- known findings

def _sig_span(sub, spec, clause, detail) -> bool:
    """ gene location spans the origin AND every failing range is explained by the coordinate-order walk """
    return ("loc" in spec and gen.is_span(spec["loc"]) and clause.endswith("_span_coordinate_order")
            and detail.get("all_explained_by") == "span_coordinate_order")


def _sig_overlap(sub, spec, clause, detail) -> bool:
    """ two exons of the gene overlap AND every failing range begins or ends on an overlap base AND the
        failure is a location of the wrong length (or Feature() refusing the right one: two parts, one end) """
    if "loc" not in spec:     # the several-genes subcheck generates no overlapping exons
        return False
    parts = spec["loc"]["parts"]
    overlapping = any(a is not b and max(a[0], b[0]) < min(a[1], b[1]) for a in parts for b in parts)
    return (overlapping and not gen.is_span(spec["loc"]) and clause.endswith("_overlap_boundary")
            and detail.get("all_explained_by") == "overlap_boundary"
            and detail.get("first_clause") in ("length", "exception"))


def _sig_overlap_refused(sub, spec, clause, detail) -> bool:
    """ two exons of the gene overlap AND the only failures are Feature() refusing the (right) sub-location because two
        of its parts share an end coordinate ('location contains overlapping exons') """
    first = detail.get("first") or {}
    return (_sig_overlap(sub, spec, clause, detail) and detail.get("first_clause") == "exception"
            and first.get("exception") in ("ValueError", "SecmetInvalidInputError")
            and "location contains overlapping exons" in str(first.get("message", "")))


def _sig_hull_adjacency(sub, spec, clause, detail) -> bool:
    """ prepeptide on a reverse-strand origin-spanning gene, re-read from its features, AND every wrong section is
        exactly what walking the location rebuilt with the touching-parts merge gives """
    return (sub == "prepeptide" and "loc" in spec and gen.is_span(spec["loc"]) and spec["loc"]["strand"] == -1
            and clause == "reread_prepeptide_reverse_touching_merge"
            and detail.get("all_explained_by") == "reverse_touching_merge")


def _sig_tta(sub, spec, clause, detail) -> bool:
    """ gene with more than one part AND every misplaced marker sits at location.start+offset / end-offset-3 """
    return (sub in ("tta", "tta_enum") and len(spec["loc"]["parts"]) > 1
            and clause == "tta_linear_offset_in_multipart_gene"
            and bool(detail.get("all_explained_by_start_plus_offset")))


def _sig_prepeptide_appended(sub, spec, clause, detail) -> bool:
    """ gene whose location ends with a stop codon AND the only wrong section is the last one, which
        covers its own residues plus exactly that stop codon """
    return (sub == "prepeptide" and bool(spec.get("stop")) and clause == "prepeptide_stop_codon_appended"
            and detail.get("all_explained_by") == "stop_codon_appended")


def _sig_prepeptide_shifted(sub, spec, clause, detail) -> bool:
    """ gene whose location ends with a stop codon, a tail is present AND core and tail are exactly the
        ranges obtained by measuring the tail back from len(location) // 3 """
    return (sub == "prepeptide" and bool(spec.get("stop")) and spec.get("tail", 0) > 0
            and clause == "prepeptide_stop_codon_shifted" and detail.get("all_explained_by") == "stop_codon_shifted")


SIGNATURES = {
    "span_coordinate_order": _sig_span,
    "tta_linear_offset": _sig_tta,
    "overlap_boundary": _sig_overlap,
    "overlap_same_end_refused": _sig_overlap_refused,
    "prepeptide_rebuilt_hull_adjacency": _sig_hull_adjacency,     # fixed entry in known_findings.json
    "prepeptide_rebuilt_reverse_touching": _sig_hull_adjacency,
    "prepeptide_stop_codon_appended": _sig_prepeptide_appended,
    "prepeptide_stop_codon_shifted": _sig_prepeptide_shifted,
}


# --------------------------------------------------------------------------- generators

def layout(exons: list, introns: list, strand: int, length: int, start: int) -> dict:
    """ exon sizes in TRANSCRIPT order + intron sizes between them, placed on a record of `length`
        with the 5'-most arc position `start` (may run over the end: the gene then spans the origin).
        Returns the location spec in Biopython order. """
    sizes = list(exons)
    gaps = list(introns)
    if strand == -1:
        sizes.reverse()
        gaps.reverse()
    parts = []
    pos = start
    for index, size in enumerate(sizes):
        first, last = pos, pos + size
        if first >= length:
            parts.append([first - length, last - length])
        elif last > length:
            parts.append([first, length])
            parts.append([0, last - length])
        else:
            parts.append([first, last])
        pos = last + (gaps[index] if index < len(gaps) else 0)
    if strand == -1:
        parts.reverse()
    loc = {"parts": parts, "strand": strand}
    loc["kind"] = "simple" if len(parts) == 1 else ("span" if gen.is_span(loc) else "multi")
    return loc


@st.composite
def gene_specs(draw, max_codons: int = 40, sampled_ranges: bool = False, allow_span: bool = True,
               tta: bool = False, allow_slip: bool = True, parts=None, allow_partial: bool = True) -> dict:
    circular = draw(st.booleans())
    strand = draw(st.sampled_from([1, -1]))
    codon_start = draw(st.sampled_from([1, 1, 1, 2, 3]))
    span = allow_span and circular and draw(st.integers(0, 2)) == 0
    if span and codon_start != 1 and draw(st.integers(0, 7)) != 0:
        codon_start = 1   # antiSMASH rejects a spanning gene with codon_start 2/3; keep that class rare
    if sampled_ranges:
        residues = draw(st.integers(41, max_codons))
    else:
        residues = draw(st.one_of(st.integers(1, 6), st.integers(1, max_codons)))
    stop = draw(st.booleans())
    trailing = draw(st.sampled_from([0, 0, 0, 1, 2]))
    lead = codon_start - 1
    total = lead + 3 * (residues + (1 if stop else 0)) + trailing
    nparts = draw(parts if parts is not None else st.integers(1, 4))
    cuts = set()
    for _ in range(nparts - 1):
        if total < 2:
            break
        # the first exon keeps at least one base after the codon_start shift
        if draw(st.integers(0, 2)) == 0:
            codon = draw(st.integers(0, (total - lead) // 3))
            cut = min(max(lead + 1, lead + 3 * codon), total - 1)
        else:
            cut = draw(gen.coord(lead + 1, total - 1))
        cuts.add(cut)
    edges = [0] + sorted(cuts) + [total]
    exons = [b - a for a, b in zip(edges, edges[1:])]
    introns = [draw(st.one_of(st.sampled_from([1, 1, 2, 3, 4, 0]), st.integers(1, 60))) for _ in exons[1:]]
    # exons joined by an empty intron are fine but rare; so are exons that overlap by 1-2 bases (the way
    # programmed frameshifts are annotated), kept away from the first and the last two codons
    if allow_slip and not span and len(exons) > 1 and draw(st.integers(0, 5)) == 0:
        junction = draw(st.integers(0, len(exons) - 2))
        offset = edges[junction + 1]
        if exons[junction] >= 4 and exons[junction + 1] >= 4 and lead + 4 <= offset <= total - 7:
            introns[junction] = -draw(st.integers(1, 2))
    extent = total + sum(introns)
    length = extent + draw(st.one_of(st.sampled_from([0, 1, 2, 3]), st.integers(0, 300)))
    span = span and extent >= 2
    if span:
        # where in the gene (arc offset 1..extent-1) the origin falls: in an exon, on a border, in an intron
        marks = []
        pos = 0
        sizes = exons if strand == 1 else exons[::-1]
        gaps = introns if strand == 1 else introns[::-1]
        for index, size in enumerate(sizes):
            marks.extend([pos, pos + size])
            pos += size + (gaps[index] if index < len(gaps) else 0)
        wrap = draw(gen.coord(1, extent - 1, anchors=tuple(marks)))
        start = length - wrap
    else:
        start = draw(gen.coord(0, length - extent))
    loc = layout(exons, introns, strand, length, start)
    spec = {"L": length, "circular": circular, "seed": draw(st.integers(0, 10 ** 6)), "loc": loc,
            "codon_start": codon_start, "stop": stop,
            "start": draw(st.sampled_from(["ATG", "ATG", "GTG", "TTG"])), "ranges": "all"}
    if codon_start == 1 and draw(st.integers(0, 5)) == 0:
        spec["explicit_codon_start"] = True
    if allow_partial and not gen.is_span(loc) and draw(st.integers(0, 3 if codon_start == 1 else 1)) == 0:
        spec["partial"] = draw(st.sampled_from(["5", "5", "3", "53"]))
    # the /translation qualifier: absent, right, or unusable (antiSMASH then translates the shifted location itself)
    if draw(st.integers(0, 1 if codon_start != 1 else 2)) == 0:
        spec["translation"] = draw(st.sampled_from(TRANSLATION_KINDS))
    if sampled_ranges:
        spec["ranges"] = draw(range_lists(residues, exons, lead))
    if tta:
        count = residues + (1 if stop else 0)
        spec["tta"] = sorted(set(draw(st.lists(st.integers(1, max(1, count - 1)), min_size=draw(st.integers(0, 1)),
                                               max_size=4))))
    return spec


@st.composite
def range_lists(draw, residues: int, exons: list, lead: int) -> list:
    """ protein ranges around exon borders, the ends and anywhere """
    anchors = {0, residues}
    pos = -lead
    for size in exons[:-1]:
        pos += size
        for residue in (pos // 3, -(-pos // 3)):
            if 0 <= residue <= residues:
                anchors.add(residue)
    anchors = tuple(sorted(anchors))
    out = []
    for _ in range(draw(st.integers(8, 40))):
        a = draw(gen.coord(0, residues, anchors=anchors))
        b = draw(gen.coord(0, residues, anchors=anchors))
        lo, hi = min(a, b), max(a, b)
        if lo == hi:
            if hi < residues:
                hi += 1
            else:
                lo -= 1
        out.append([lo, hi])
    return out


def _border_residues(spec: dict) -> list:
    """ residue indices at which the gene's transcript changes exon (rounded down), strictly inside the protein """
    residues = _residues_of(spec)
    pos = -(spec["codon_start"] - 1)
    found = []
    for start, end in spec["loc"]["parts"][:-1]:      # Biopython order is transcript order
        pos += end - start
        if 0 < pos // 3 < residues:
            found.append(pos // 3)
    return sorted(set(found))


@st.composite
def prepeptide_specs(draw) -> dict:
    spec = draw(gene_specs(max_codons=60, parts=st.sampled_from([1, 2, 3, 3, 4, 4])))
    spec = dict(spec)
    spec.pop("ranges")
    parts = spec["loc"]["parts"]
    if any(a is not b and max(a[0], b[0]) < min(a[1], b[1]) for a in parts for b in parts):
        spec["stop"] = False   # keeps the two prepeptide findings' input classes disjoint
    residues = _residues_of(spec)
    inner = _border_residues(spec)
    if inner and residues >= 3 and draw(st.booleans()):
        # sections laid over the introns: the leader ends after one exon border, the core after a later one,
        # so that consecutive sections each hold an intron (what a rebuilt prepeptide has to stitch together)
        first = draw(st.integers(0, len(inner) - 1))
        low = min(inner[first] + 1, residues - 1)
        high = min(residues - 1, inner[first + 1] - 1) if first + 1 < len(inner) else residues - 1
        leader = draw(st.integers(low, max(low, high)))
        later = [b for b in inner if b >= leader]
        core_low = min(residues, max(leader + 1, (later[0] + 1) if later else leader + 1))
        beyond = [b for b in inner if b > core_low]
        if beyond and draw(st.booleans()):
            core_end = draw(st.integers(core_low, beyond[0]))   # the tail then holds an intron as well
        else:
            core_end = draw(st.integers(core_low, residues))
        spec["leader"] = leader
        spec["tail"] = residues - core_end
    else:
        spec["leader"] = draw(st.one_of(st.just(0), st.integers(0, 30)))
        spec["tail"] = draw(st.one_of(st.just(0), st.integers(0, 12)))
    return spec


@st.composite
def domain_specs(draw) -> dict:
    big = draw(st.booleans())
    spec = dict(draw(gene_specs(max_codons=200, sampled_ranges=True) if big else gene_specs(max_codons=40)))
    if spec["ranges"] == "all":
        residues = _residues_of(spec)
        count = draw(st.integers(1, 8))
        picked = []
        for _ in range(count):
            a = draw(st.integers(0, residues - 1))
            b = draw(st.integers(a + 1, residues))
            picked.append([a, b])
        spec["ranges"] = picked
    else:
        spec["ranges"] = spec["ranges"][:8]
    return spec


@st.composite
def multi_gene_specs(draw) -> dict:
    """ 2-3 genes (own strand, exon structure, codon_start) side by side on one linear record and hits that
        deliberately repeat protein ranges across genes """
    count = draw(st.sampled_from([2, 2, 3]))
    genes = []
    for _ in range(count):
        gene = dict(draw(gene_specs(max_codons=40, allow_span=False, allow_slip=False, allow_partial=False,
                                    parts=st.sampled_from([1, 1, 2, 3, 4]))))
        gene.pop("ranges")
        gene["circular"] = False
        genes.append(gene)
    smallest = min(_residues_of(gene) for gene in genes)
    hits = []
    for _ in range(draw(st.integers(1, 3))):
        start = draw(st.integers(0, smallest - 1))
        end = draw(st.integers(start + 1, smallest))
        holders = draw(st.sampled_from([list(range(count))] * 2 + [[0, 1], [1, 0], [count - 1, 0]]))
        hits.extend([index, start, end] for index in holders)
    for _ in range(draw(st.integers(0, 3))):
        index = draw(st.integers(0, count - 1))
        residues = _residues_of(genes[index])
        start = draw(st.integers(0, residues - 1))
        hits.append([index, start, draw(st.integers(start + 1, residues))])
    hits = draw(st.permutations(hits))
    return {"genes": genes, "hits": [list(hit) for hit in hits]}


def _residues_of(spec: dict) -> int:
    coding = sum(e - s for s, e in spec["loc"]["parts"]) - (spec["codon_start"] - 1)
    return coding // 3 - (1 if spec.get("stop") else 0)


def enum_small_genes(codons: int = 5, max_ring_extra: int = 2):
    """ every split of a `codons`-codon gene into 1-3 exons x strand x intron size x every rotation
        of a ring just large enough (so the origin visits every base and every intron position) """
    def cases():
        total = 3 * codons
        splits = [[]]
        splits += [[a] for a in range(1, total)]
        splits += [[a, b] for a in range(1, total) for b in range(a + 1, total) if (a % 3, b % 3) != (0, 0) or a < 7]
        for cuts in splits:
            edges = [0] + cuts + [total]
            exons = [b - a for a, b in zip(edges, edges[1:])]
            for intron in ((1,) if len(exons) == 1 else (0, 1, 4)):
                introns = [intron] * (len(exons) - 1)
                extent = total + sum(introns)
                for strand in (1, -1):
                    for extra in (0, max_ring_extra):
                        length = extent + extra
                        for start in range(length):
                            loc = layout(exons, introns, strand, length, start)
                            circular = True
                            if len(exons) > 1 and intron == 0 and not gen.is_span(loc) and extra:
                                continue
                            yield {"L": length, "circular": circular, "seed": 7 * start + len(cuts), "loc": loc,
                                   "codon_start": 1, "stop": False, "start": "ATG", "ranges": "all"}
    return cases


def enum_tta_genes():
    def cases():
        for spec in enum_small_genes(4, 1)():
            spec = dict(spec)
            spec["tta"] = [1, 3]
            yield spec
    return cases


def run(ctx) -> None:
    shards = ctx.pick(4, 16)
    ctx.enum("sub_enum", enum_small_genes(ctx.pick(3, 5), ctx.pick(1, 2)), shards=ctx.pick(8, 16))
    ctx.enum("tta_enum", enum_tta_genes(), shards=ctx.pick(8, 16))
    ctx.hyp("sub", gene_specs(max_codons=40), max_examples=ctx.pick(800, 12000), shards=shards)
    ctx.hyp("sub", gene_specs(max_codons=330, sampled_ranges=True), max_examples=ctx.pick(500, 9000), shards=shards)
    ctx.hyp("prepeptide", prepeptide_specs(), max_examples=ctx.pick(1200, 30000), shards=shards)
    ctx.hyp("domains", domain_specs(), max_examples=ctx.pick(600, 15000), shards=shards)
    ctx.hyp("domains_multi", multi_gene_specs(), max_examples=ctx.pick(500, 12000), shards=shards)
    ctx.hyp("tta", gene_specs(max_codons=40, tta=True), max_examples=ctx.pick(1000, 25000), shards=shards)
    ctx.extra["bounds"] = {"all_ranges_up_to_residues": 40, "sampled_ranges_up_to_residues": 330,
                           "exons": 4, "record_length_up_to": 1500,
                           "enumerated_gene_codons": ctx.pick(3, 5)}
