""" C01 - rule conditions evaluate to their documented boolean meaning """

from __future__ import annotations

import itertools

from hypothesis import strategies as st

from vlib import gen, ring, rules
from vlib.build import make_cds, make_record
from vlib.runner import Violation, code_under_test

PROPERTY_ID = "C01"
LEVEL = "exploration"
RULE = ("Condition trees are generated from the documented grammar by construction (not/and/or/groups/cds/minimum/"
        "minscore over profiles a..e, textually distinct operands, at least one positive requirement), rendered to "
        "text and parsed by the real parser. Genes are laid out on a line or ring with gaps drawn around the cutoff "
        "(cutoff-1 = inside, cutoff, cutoff+1), optionally with an origin-spanning gene and a wrap-around gap near the "
        "cutoff; hits and bitscores (threshold-1, threshold, threshold+1, 0, 100) are assigned per gene. Every gene is "
        "evaluated with DetectionRule.detect and compared (met, reason profiles, anchoring) with an independent "
        "reference evaluator; apply_cluster_rules on a real Record is checked in both directions. Enumeration: a fixed "
        "family of 70 condition shapes x all 64 hit assignments of {a,b} on 3 genes x gaps {c-1,c,c+1}^2 x topology. "
        "Non-trivial: the formula uses not/cds/minimum/minscore AND some pair of genes is at distance c-1, c or c+1 "
        "(or is separated across the origin).")
ASSUMPTIONS = [
    "minimum(n,[..]) sums, over the gene and the genes in range, the number of distinct listed profiles hitting each "
    "gene (the module docstring's reading; the repository's own tests pin it)",
    "reason profiles include profiles under a negation when they hit the gene itself (statement: 'the rule's profiles that hit that gene')",
    "distances are the C04 set-of-bases distances",
    "route 2 does not model which non-anchoring genes are additionally reported, only that each is in range of an anchor "
    "and hit by one of the rule's profiles",
]

PROFILES = ["a", "b", "c", "d", "e"]
_RULE_CACHE: dict = {}


def _parse(text: str, profiles):
    from antismash.common.hmm_rule_parser import rule_parser
    key = (text, tuple(sorted(profiles)))
    if key not in _RULE_CACHE:
        if len(_RULE_CACHE) > 5000:
            _RULE_CACHE.clear()
        _RULE_CACHE[key] = rule_parser.Parser(text, set(profiles), {"cat"}).rules[0]
    return _RULE_CACHE[key]


def _near(spec: dict) -> dict:
    wrap = spec["L"] if spec["circular"] else None
    near = {}
    for one in spec["genes"]:
        near[one["name"]] = {two["name"] for two in spec["genes"]
                             if ring.dist(one["loc"], two["loc"], wrap) < spec["cutoff"]}
    return near


def _boundary_pair(spec: dict) -> bool:
    wrap = spec["L"] if spec["circular"] else None
    cutoff = spec["cutoff"]
    for one, two in itertools.combinations(spec["genes"], 2):
        if abs(ring.dist(one["loc"], two["loc"], wrap) - cutoff) <= 1:
            return True
        if wrap and ring.dist(one["loc"], two["loc"], None) != ring.dist(one["loc"], two["loc"], wrap):
            return True
    return False


def _minscore_in_cds(node: list, inside: bool = False) -> bool:
    kind = node[0]
    if kind == "minscore":
        return inside
    if kind in ("not", "group"):
        return _minscore_in_cds(node[1], inside)
    if kind == "cds":
        return _minscore_in_cds(node[1], True)
    if kind in ("and", "or"):
        return any(_minscore_in_cds(sub, inside) for sub in node[1])
    return False


def check_detect(spec: dict) -> dict:
    from antismash.common.hmm_rule_parser.structures import ProfileHit
    tree = spec["rule"]
    text = f"RULE r CATEGORY cat CUTOFF 1 NEIGHBOURHOOD 1 CONDITIONS {rules.render(tree)}"
    try:
        rule = _parse(text, PROFILES)
    except Exception as err:  # pylint: disable=broad-except
        raise Violation("wellformed_rule_rejected", {"text": text, "exception": type(err).__name__,
                                                     "message": str(err)[:200]}) from err
    rule.cutoff = spec["cutoff"]
    features = {gene["name"]: make_cds(gene["loc"], gene["name"]) for gene in spec["genes"]}
    results = {}
    for name, hits in spec["hits"].items():
        if hits:
            results[name] = [ProfileHit(name, profile, float(score), 1e-10) for profile, score in sorted(hits.items())]
    world = rules.World({name: dict(hits) for name, hits in spec["hits"].items()}, _near(spec))
    origin = spec["L"] if spec["circular"] else 0
    for gene in spec["genes"]:
        name = gene["name"]
        with code_under_test("detect_total"):
            result = rule.detect(name, features, results, circular_origin=origin)
        want_met = rules.evaluate(tree, name, world)
        want_reasons = rules.reasons(tree, name, world)
        if bool(result.met) != want_met:
            raise Violation("met", {"gene": name, "text": rules.render(tree), "got": result.met, "want": want_met})
        if set(result.matches) != want_reasons:
            raise Violation("reasons", {"gene": name, "text": rules.render(tree), "got": sorted(result.matches),
                                        "want": sorted(want_reasons)})
    kinds = rules.operator_kinds(tree)
    classes = sorted(f"op_{kind}" for kind in kinds)
    classes.append("circular" if spec["circular"] else "linear")
    if _minscore_in_cds(tree):
        classes.append("minscore_in_cds")
    if any(gen.is_span(g["loc"]) for g in spec["genes"]):
        classes.append("spanning_gene")
    boundary = _boundary_pair(spec)
    if boundary:
        classes.append("boundary_pair")
    return {"nontrivial": bool(kinds & {"not", "cds", "minimum", "minscore"}) and boundary, "classes": classes}


def check_apply(spec: dict) -> dict:
    """ route 2: apply_cluster_rules on a real record """
    from antismash.common.hmm_rule_parser import cluster_prediction
    from antismash.common.hmm_rule_parser.structures import ProfileHit
    tree = spec["rule"]
    text = f"RULE r CATEGORY cat CUTOFF 1 NEIGHBOURHOOD 1 CONDITIONS {rules.render(tree)}"
    try:
        rule = _parse(text, PROFILES)
    except Exception as err:  # pylint: disable=broad-except
        raise Violation("wellformed_rule_rejected", {"text": text, "exception": type(err).__name__,
                                                     "message": str(err)[:200]}) from err
    rule.cutoff = spec["cutoff"]
    record = make_record(spec["L"], spec["circular"])
    for gene in spec["genes"]:
        record.add_cds_feature(make_cds(gene["loc"], gene["name"]))
    results = {}
    for name, hits in spec["hits"].items():
        if hits:
            results[name] = [ProfileHit(name, profile, float(score), 1e-10) for profile, score in sorted(hits.items())]
    with code_under_test("apply_total"):
        domains, type_hits = cluster_prediction.apply_cluster_rules(record, results, [rule])
    world = rules.World({name: dict(hits) for name, hits in spec["hits"].items()}, _near(spec))
    # only genes with hits are ever evaluated by the pipeline
    anchors = set()
    for gene in spec["genes"]:
        name = gene["name"]
        if not spec["hits"].get(name):
            continue
        if rules.evaluate(tree, name, world) and rules.reasons(tree, name, world):
            anchors.add(name)
    reported = set(type_hits.get("r", set()))
    if not anchors <= reported:
        raise Violation("anchor_not_reported", {"text": rules.render(tree), "missing": sorted(anchors - reported)})
    rule_profiles = rules.profiles_of(tree)
    for name in reported - anchors:
        own = set(spec["hits"].get(name, {}))
        if not own & rule_profiles or not world.near[name] & anchors:
            raise Violation("reported_without_reason", {"text": rules.render(tree), "gene": name,
                                                        "anchors": sorted(anchors)})
    if not anchors and reported:
        raise Violation("reported_without_anchor", {"text": rules.render(tree), "reported": sorted(reported)})
    for name in reported:
        got = set(domains.get(name, {}).get("r", set()))
        own = set(spec["hits"].get(name, {}))
        if not got <= own & rule_profiles:
            raise Violation("domains_invented", {"gene": name, "got": sorted(got)})
        if name in anchors and not rules.reasons(tree, name, world) <= got:
            raise Violation("domains_missing", {"gene": name, "got": sorted(got),
                                                "want": sorted(rules.reasons(tree, name, world))})
    kinds = rules.operator_kinds(tree)
    boundary = _boundary_pair(spec)
    return {"nontrivial": bool(kinds & {"not", "cds", "minimum", "minscore"}) and boundary,
            "classes": ["anchors" if anchors else "no_anchor", "ancillary" if reported - anchors else "anchors_only",
                        "circular" if spec["circular"] else "linear"]}


SUBCHECKS = {"detect": check_detect, "detect_enum": check_detect, "apply": check_apply}
SIGNATURES: dict = {}


# --------------------------------------------------------------------------- rule generator

def _operand(node: list, parent: str) -> list:
    """ make a node legal as an operand of `parent` """
    if node[0] == "or" or (node[0] == "and" and parent == "and"):
        return ["group", node]
    return node


@st.composite
def leaf(draw, profiles, in_cds: bool, allow_minscore: bool = True) -> list:
    choice = draw(st.integers(0, 9))
    if in_cds and choice == 9 and allow_minscore:
        # the parser accepts minscore inside cds(...); the statement's cds() semantics apply to it
        node: list = ["minscore", draw(st.sampled_from(profiles)), draw(st.sampled_from([10, 50]))]
    elif choice <= 5 or in_cds and choice <= 8:
        node = ["id", draw(st.sampled_from(profiles))]
    elif choice <= 7 and not in_cds:
        names = draw(st.lists(st.sampled_from(profiles), min_size=1, max_size=4, unique=True))
        node = ["minimum", draw(st.integers(1, len(names) + 2)), names]
    elif allow_minscore and not in_cds:
        node = ["minscore", draw(st.sampled_from(profiles)), draw(st.sampled_from([10, 50]))]
    else:
        node = ["id", draw(st.sampled_from(profiles))]
    if draw(st.integers(0, 3)) == 0:
        node = ["not", node]
    return node


@st.composite
def expression(draw, profiles, depth: int, in_cds: bool = False) -> list:
    if depth <= 0:
        return draw(leaf(profiles, in_cds))
    shape = draw(st.sampled_from(["leaf", "and", "or", "or", "and", "group", "cds", "wrapped_not"]))
    if shape == "leaf":
        return draw(leaf(profiles, in_cds))
    if shape == "wrapped_not":
        # redundant parentheses around a negation, once or twice, themselves negated or not: not ((not a)), (not (a or b))
        inner = draw(expression(profiles, depth - 1, in_cds))
        if inner[0] in ("and", "or"):
            inner = ["group", inner]
        node = ["group", inner if inner[0] == "not" else ["not", inner]]
        if draw(st.booleans()):
            node = ["group", node]
        return ["not", node] if draw(st.booleans()) else node
    if shape == "group":
        node: list = ["group", draw(expression(profiles, depth - 1, in_cds))]
        return ["not", node] if draw(st.booleans()) else node
    if shape == "cds":
        if in_cds:
            return draw(leaf(profiles, in_cds))
        inner = draw(expression(profiles, min(depth - 1, draw(st.sampled_from([1, 1, 2]))), True))
        if len(profiles) >= 4 and draw(st.integers(0, 3)) == 0:
            # a cds() whose contents begin and end with a parenthesised group: cds((a or b) and (c or d))
            names = draw(st.permutations(list(profiles)))[:4]
            low, high = draw(st.sampled_from([("or", "and"), ("and", "or")]))
            inner = [high, [["group", [low, [["id", names[0]], ["id", names[1]]]]],
                            ["group", [low, [["id", names[2]], ["id", names[3]]]]]]]
        if inner[0] not in ("and", "or"):
            other = ["id", draw(st.sampled_from(profiles))]
            if rules.canon(other) == rules.canon(inner):
                other = ["not", other] if inner[0] != "not" else other[1] if False else ["id", other[1]]
            if rules.canon(other) == rules.canon(inner):
                others = [p for p in profiles if rules.canon(["id", p]) != rules.canon(inner)]
                other = ["id", others[0]]
            inner = [draw(st.sampled_from(["and", "or"])), [_operand(inner, "and"), other]]
        node = ["cds", inner]
        return ["not", node] if draw(st.integers(0, 3)) == 0 else node
    count = draw(st.integers(2, 4))
    operands: list = []
    seen: set = set()
    for _ in range(count):
        sub = _operand(draw(expression(profiles, depth - 1, in_cds)), shape)
        text = rules.canon(sub)
        if text in seen:
            continue
        seen.add(text)
        operands.append(sub)
    if len(operands) == 1:
        return operands[0]
    return [shape, operands]


@st.composite
def rule_tree(draw, profiles=tuple(PROFILES), max_depth: int = 3) -> list:
    tree = draw(expression(list(profiles), draw(st.integers(0, max_depth))))
    if not rules.has_positive(tree):
        extra = None
        for profile in profiles:
            candidate = ["id", profile]
            taken = {rules.canon(sub) for sub in tree[1]} if tree[0] == "and" else {rules.canon(_operand(tree, "and"))}
            if rules.canon(candidate) not in taken:
                extra = candidate
                break
        assert extra is not None
        if tree[0] == "and":
            tree = ["and", tree[1] + [extra]]
        else:
            tree = ["and", [_operand(tree, "and"), extra]]
    return tree


@st.composite
def worlds(draw, tree: list, max_genes: int = 6) -> dict:
    cutoff = draw(st.sampled_from([1, 2, 5, 20, 60]))
    circular = draw(st.booleans())
    base = 40 + 8 * cutoff
    genes = draw(gen.gene_layout(base, False, max_genes=max_genes, multi_exon=True, allow_span=False,
                                 size_hint=max(3, cutoff // 2), gap_choices=(max(0, cutoff - 1), cutoff, cutoff + 1)))
    if circular and draw(st.integers(0, 3)) == 0:
        # neighbours over the origin with introns: the first gene after the origin and/or the last one before it get
        # two or three exons (neither crosses the origin), the way round the origin is drawn around the cutoff below
        ordered = sorted(genes, key=lambda g: min(p[0] for p in g["loc"]["parts"]))
        taken = {(tuple(map(tuple, sorted(g["loc"]["parts"]))), g["loc"]["strand"]) for g in genes}
        first, last = ordered[0], max(genes, key=lambda g: max(p[1] for p in g["loc"]["parts"]))
        for gene, side in ((first, "first"), (last, "last")):
            if draw(st.booleans()) or side == "first" and first is last:
                continue
            low = min(p[0] for p in gene["loc"]["parts"])
            high = max(p[1] for p in gene["loc"]["parts"])
            strand = gene["loc"]["strand"]
            intron = draw(st.sampled_from([1, 2, max(1, cutoff - 1), cutoff, cutoff + 3]))
            exons = draw(st.integers(2, 3))
            # grow outwards from the record middle so that nothing else is overlapped more than before
            if side == "first":
                shift = (exons - 1) * (intron + 3)
                for other in genes:
                    if other is not gene:
                        other["loc"]["parts"] = [[a + shift, b + shift] for a, b in other["loc"]["parts"]]
                parts = [[low + k * (3 + intron), low + k * (3 + intron) + 3] for k in range(exons - 1)]
                parts.append([low + shift, high + shift])
            else:
                parts = [[low, high]] + [[high + intron + (k - 1) * (3 + intron), high + intron + (k - 1) * (3 + intron) + 3]
                                         for k in range(1, exons)]
            key = (tuple(map(tuple, parts)), strand)
            if key in taken:
                continue
            taken.add(key)
            gene["loc"] = {"parts": parts if strand != -1 else list(reversed(parts)), "strand": strand, "kind": "multi"}
    last_end = max(p[1] for g in genes for p in g["loc"]["parts"])
    first_start = min(p[0] for g in genes for p in g["loc"]["parts"])
    tail = draw(st.one_of(st.integers(0, 3 * cutoff + 5),
                          st.sampled_from([max(0, cutoff - 1 - first_start), max(0, cutoff - first_start),
                                           max(0, cutoff + 1 - first_start), 0, 1])))
    length = max(last_end + tail, 6)
    if circular and draw(st.integers(0, 3)) == 0:
        pre = draw(st.integers(1, 3))
        post = draw(st.integers(max(1, 3 - pre), max(1, 3 - pre, min(4, length - pre - 1))))
        strand = draw(st.sampled_from([1, -1]))
        parts = [[length - pre, length], [0, post]]
        if strand == -1:
            parts.reverse()
        if not any(g["loc"]["parts"] == parts and g["loc"]["strand"] == strand for g in genes):
            genes.append({"name": f"g{len(genes)}", "loc": {"parts": parts, "strand": strand, "kind": "span"}})
    used = sorted(rules.profiles_of(tree))
    pool = used + [p for p in PROFILES if p not in used][:1]
    hits = {}
    for gene in genes:
        chosen = draw(st.lists(st.sampled_from(pool), max_size=3, unique=True))
        hits[gene["name"]] = {p: draw(st.sampled_from([9, 10, 11, 49, 50, 51, 0, 100, 49.96, 9.97, 50.04, 10.5]))
                              for p in chosen}
    return {"L": length, "circular": circular, "cutoff": cutoff, "genes": genes, "hits": hits, "rule": tree}


@st.composite
def detect_specs(draw) -> dict:
    tree = draw(rule_tree())
    return draw(worlds(tree))


# --------------------------------------------------------------------------- enumeration

def _shapes() -> list:
    a, b = ["id", "a"], ["id", "b"]
    na, nb = ["not", a], ["not", b]
    shapes = [
        a, ["and", [a, b]], ["or", [a, b]], ["and", [a, nb]], ["or", [a, nb]], ["and", [na, b]],
        ["group", ["and", [a, b]]], ["not", ["group", ["and", [na, nb]]]], ["not", ["group", ["or", [na, nb]]]],
        ["and", [a, ["not", ["group", ["or", [a, b]]]]]], ["or", [a, ["and", [b, na]]]],
        ["or", [["and", [a, b]], ["and", [na, b]]]],
        ["cds", ["and", [a, b]]], ["cds", ["or", [a, b]]], ["cds", ["and", [a, nb]]], ["cds", ["or", [a, nb]]],
        ["cds", ["and", [na, b]]],
        ["and", [a, ["cds", ["and", [a, b]]]]], ["and", [a, ["not", ["cds", ["and", [a, b]]]]]],
        ["and", [b, ["not", ["cds", ["or", [a, nb]]]]]], ["or", [a, ["cds", ["and", [a, b]]]]],
        ["and", [["cds", ["and", [a, b]]], ["cds", ["or", [a, b]]]]],
        ["or", [["cds", ["and", [a, nb]]], ["cds", ["and", [na, b]]]]],
        ["cds", ["and", [a, ["group", ["or", [b, na]]]]]], ["cds", ["or", [["and", [a, b]], na]]],
        ["minimum", 1, ["a"]], ["minimum", 1, ["a", "b"]], ["minimum", 2, ["a", "b"]], ["minimum", 3, ["a", "b"]],
        ["minimum", 2, ["a"]], ["minimum", 4, ["a", "b"]],
        ["and", [a, ["not", ["minimum", 2, ["a", "b"]]]]], ["and", [a, ["minimum", 2, ["a", "b"]]]],
        ["and", [b, ["not", ["minimum", 3, ["a", "b"]]]]], ["or", [a, ["minimum", 3, ["a", "b"]]]],
        ["and", [["minimum", 2, ["a", "b"]], ["cds", ["and", [a, b]]]]],
        ["minscore", "a", 50], ["and", [b, ["minscore", "a", 50]]], ["and", [b, ["not", ["minscore", "a", 50]]]],
        ["or", [b, ["minscore", "a", 50]]], ["and", [a, ["minscore", "a", 50]]],
        ["and", [a, ["not", ["minscore", "a", 50]]]], ["and", [["minscore", "a", 50], ["minscore", "b", 50]]],
        ["and", [["minimum", 2, ["a", "b"]], ["minscore", "a", 50]]],
        ["and", [["cds", ["and", [a, b]]], ["minscore", "b", 50]]],
        ["and", [a, ["group", ["or", [b, ["not", ["cds", ["and", [a, b]]]]]]]]],
        ["or", [["and", [a, b]], ["not", ["group", ["or", [a, b]]]], a]] if False else ["or", [["and", [a, nb]], b]],
        ["and", [["group", ["or", [a, b]]], ["not", ["group", ["and", [a, b]]]]]],
        ["and", [["group", ["or", [a, nb]]], b]], ["not", ["group", ["and", [na, ["group", ["or", [nb, a]]]]]]],
    ]
    # add each shape with the roles of a and b swapped (text differs, so do the reason sets)
    def swap(node):
        if node[0] == "id":
            return ["id", {"a": "b", "b": "a"}[node[1]]]
        if node[0] in ("not", "group", "cds"):
            return [node[0], swap(node[1])]
        if node[0] in ("and", "or"):
            return [node[0], [swap(sub) for sub in node[1]]]
        if node[0] == "minimum":
            return ["minimum", node[1], [{"a": "b", "b": "a"}[n] for n in node[2]]]
        return ["minscore", {"a": "b", "b": "a"}[node[1]], node[2]]
    out = []
    seen = set()
    for shape in shapes:
        for variant in (shape, swap(shape)):
            text = rules.render(variant)
            if text not in seen and rules.has_positive(variant):
                seen.add(text)
                out.append(variant)
    return out


def enum_cases(thorough: bool):
    def cases():
        cutoff = 5
        size = 3
        for tree in _shapes():
            uses_score = "minscore" in rules.operator_kinds(tree)
            score_sets = [(50,), (49,), (49.96,)] if uses_score else [(100,)]
            for gap1, gap2 in itertools.product((cutoff - 1, cutoff, cutoff + 1), repeat=2):
                starts = [2, 2 + size + gap1, 2 + 2 * size + gap1 + gap2]
                end = starts[2] + size
                intron = 2
                topologies = [(False, end + 3, False)]
                for wrap in ((cutoff - 1, cutoff, cutoff + 1) if thorough else (cutoff - 1,)):
                    topologies.append((True, end + wrap - 2, False))
                    # the same ring with a second exon on the last gene (an intron of 2 bases): the way round the origin
                    # from its last exon to the first gene is still `wrap` bases
                    topologies.append((True, end + intron + size + wrap - 2, True))
                for circular, length, split_last in topologies:
                    for bits in itertools.product((0, 1), repeat=6):
                        for scores in score_sets:
                            genes = [{"name": f"g{i}", "loc": {"parts": [[s, s + size]], "strand": 1 if i != 1 else -1}}
                                     for i, s in enumerate(starts)]
                            if split_last:
                                genes[2]["loc"]["parts"].append([end + intron, end + intron + size])
                            hits = {}
                            for i in range(3):
                                hits[f"g{i}"] = {}
                                if bits[2 * i]:
                                    hits[f"g{i}"]["a"] = scores[0] if i != 2 else 50
                                if bits[2 * i + 1]:
                                    hits[f"g{i}"]["b"] = scores[0] if i != 0 else 51
                            yield {"L": length, "circular": circular, "cutoff": cutoff, "genes": genes,
                                   "hits": hits, "rule": tree}
    return cases


def run(ctx) -> None:
    ctx.extra["enumerated_condition_shapes"] = len(_shapes())
    ctx.enum("detect_enum", enum_cases(ctx.thorough), shards=ctx.pick(16, 16))
    ctx.hyp("detect", detect_specs(), max_examples=ctx.pick(3000, 80000), shards=ctx.pick(8, 16))
    ctx.hyp("apply", detect_specs(), max_examples=ctx.pick(1500, 40000), shards=ctx.pick(8, 16))
