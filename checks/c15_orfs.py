""" C15 - ORF scanning finds exactly the open reading frames of the searched sequence

    scan / scan_enum   scan_orfs against an independent scanner, coordinates mapped by hand and
                       extracted with Biopython from a record that really contains the window
    search / search_enum / search_free
                       find_all_orfs on records with gene layouts: every returned feature is an ORF,
                       inside the area, overlaps no existing gene by more than max_overlap, has the
                       translation of its location; with no genes in the way the result is exactly
                       the reference ORF set of the searched window (both strands)
    feature            create_feature_from_location / get_trimmed_orf on ORF locations
"""

from __future__ import annotations

import itertools

from hypothesis import strategies as st

from vlib import gen, ring
from vlib.build import make_cds, make_record, to_loc
from vlib.runner import Violation, code_under_test

PROPERTY_ID = "C15"
LEVEL = "exploration"
RULE = ("scan: the chunk is a codon string from a start/stop-rich or a quiet pool (ATG GTG TTG TAA TAG TGA, their "
        "reverse complements, fillers, IUPAC codes incl. TAR/RTG/YAA) with up to three planted ORFs on either "
        "strand, 0-2 extra leading/trailing bases, optional lower case / stray IUPAC letters, 0..~300 nt; the chunk "
        "(direction 1) or its reverse complement (direction -1) is written into a record of length L at "
        "[offset, offset+len) modulo L (L = len + {0,1,2,3,4,7,60}, or no record length with offset >= 0); offset "
        "in [-L, L] biased to the values that put an ORF just / half / almost completely across the origin; "
        "minimum_length from {0,3,6,9,60} or an ORF's own length -3/-1/0/+1. Enumeration: every string of <= N "
        "codons over {ATG,TTG,TAA,TGA,AAA} with 0-2 leading and trailing bases, both directions, L in {len, len+1, "
        "len+4, None}; up to M codons with every offset in [-L, L] and minima {0,6,9,10}, longer ones with 12 "
        "boundary offsets and minima {0, 3N-3, 3N}. search: rings/lines from the same pools (optionally rotated so "
        "that an ORF lies across the origin) with 0..5 genes built by construction (free, after the previous one "
        "within +-padding, nested into the previous one's tail, tiny, multi-exon, origin-spanning; boundaries "
        "anchored at ORF ends +- max_overlap), area none / simple / origin-crossing (also the whole ring), "
        "min_length around the ORF lengths, max_overlap in {0,1,3,10,15}; search_enum: all one- and two-gene "
        "layouts on a coordinate grid over three ORF-dense 42-nt rings x 4 areas x paddings; search_free: all codon "
        "strings as gene-free rings/lines with every origin-crossing whole-ring area. feature: every kind of "
        "reference ORF location (plain, wrapped, both strands, alternative starts) through "
        "create_feature_from_location and get_trimmed_orf with include/min/max options. "
        "Non-trivial (scan): at least one reference ORF and (reverse direction, or an ORF wrapping the origin, or "
        "an ORF length within 3 of the minimum, or a non-zero offset with a record length); (search): a result or "
        "a reference ORF exists and (a gene within 2*max_overlap of a result, or an origin-crossing area, or an ORF "
        "length within 3 of the minimum, or a reverse-strand result); (feature): wrapped / reverse / alternative "
        "start, or a trimmed result. distinct = sha1 of the canonical spec (enumerated cases are distinct by "
        "construction). Cases that hit an open known finding are counted in excluded_known, not in the classes.")
ASSUMPTIONS = [
    "stop codons are the literal triplets TAA/TAG/TGA and start codons ATG/GTG/TTG after upper-casing; IUPAC "
    "ambiguity codes are never starts or stops (the statement lists the start codons literally)",
    "Biopython's FeatureLocation/CompoundLocation.extract and Seq.translate (table 11) are the trusted base; "
    "origin-wrapped locations are read in Biopython part order (reverse strand: [0:b) before [a:L))",
    "scan_orfs is called with len(seq) <= record_length and -record_length <= offset <= record_length, or "
    "without a record length and offset >= 0 (what find_all_orfs and the repository tests do)",
    "for gene layouts only soundness of find_all_orfs is asserted (the statement says 'only returns'); "
    "completeness is asserted when no gene touches the searched window",
    "overlap with a gene is counted on the gene's exon bases (never more than the hull overlap the code uses) and "
    "per contiguous stretch of the ORF: an ORF in a gap may reach max_overlap bases into the neighbouring gene at "
    "each end of the gap, and on a ring both neighbours can be the same gene",
    "get_trimmed_orf is judged only as part of the search flow: its result is an ORF suffix of the input ORF "
    "with a translation matching its location",
]

STARTS = ("ATG", "GTG", "TTG")
STOPS = ("TAA", "TAG", "TGA")

_COMPLEMENT = str.maketrans("ACGTRYSWKMBDHVNacgtryswkmbdhvn", "TGCAYRSWMKVHDBNtgcayrswmkvhdbn")


def revcomp(text: str) -> str:
    return text.translate(_COMPLEMENT)[::-1]


def ref_orfs(chunk: str, minimum: int) -> list:
    """ the independent scanner: per frame, split at stops; in every stop-terminated segment the
        ORF runs from the first start codon to the stop inclusive; kept if at least `minimum` long.
        Returns (start, end) pairs, half-open chunk indices. """
    text = chunk.upper()
    found = []
    for frame in range(3):
        codons = [text[i:i + 3] for i in range(frame, len(text) - 2, 3)]
        segment_start = 0
        for index, codon in enumerate(codons):
            if codon not in STOPS:
                continue
            first = next((j for j in range(segment_start, index) if codons[j] in STARTS), None)
            if first is not None:
                begin, end = frame + 3 * first, frame + 3 * index + 3
                if end - begin >= minimum:
                    found.append((begin, end))
            segment_start = index + 1
    return sorted(found)


def is_orf_text(text: str) -> bool:
    text = text.upper()
    if len(text) % 3 or len(text) < 6:
        return False
    if text[:3] not in STARTS or text[-3:] not in STOPS:
        return False
    return not any(text[i:i + 3] in STOPS for i in range(0, len(text) - 3, 3))


_AMINOS = "FFLLSSSSYY**CC*WLLLLPPPPHHQQRRRRIIIMTTTTNNKKSSRRVVVVAAAADDEEGGGG"
_CODON_TABLE = {a + b + c: _AMINOS[16 * i + 4 * j + k]
                for i, a in enumerate("TCAG") for j, b in enumerate("TCAG") for k, c in enumerate("TCAG")}


def expected_translation(orf_text: str) -> tuple:
    """ (translation of the ORF without its stop codon with the leading-M rule, exact?)
        exact is False when an ambiguous internal codon translates to a stop (e.g. TAR): Biopython's
        to_stop then truncates, which the statement neither demands nor forbids. """
    from Bio.Seq import Seq
    text = orf_text.upper()
    aminos = []
    exact = True
    for i in range(0, len(text) - 3, 3):
        codon = text[i:i + 3]
        amino = _CODON_TABLE.get(codon)
        if amino is None:
            amino = str(Seq(codon).translate(table=11))
        if amino == "*":
            exact = False
            break
        aminos.append("X" if amino in "BJOUZ" else amino)
    if aminos:
        aminos[0] = "M"
    return "".join(aminos), exact


# --------------------------------------------------------------------------- signatures of known findings

def _sig_exact_min(sub, spec, clause, detail) -> bool:
    """ the only missing reference ORFs are exactly minimum_length long (one point) """
    if clause not in ("scan_missing", "search_missing"):
        return False
    missing = detail.get("missing") or []
    return bool(missing) and all(item["length"] == spec["min"] for item in missing)


def _sig_reverse_wrap(sub, spec, clause, detail) -> bool:
    """ a reverse-strand ORF wrapped over the origin is reported as [a:L),[0:b); reading the
        two parts in the other order gives the ORF """
    if clause not in ("scan_extract", "search_is_orf", "feature_is_orf"):
        return False
    return (detail.get("strand") == -1 and detail.get("forward_part_order") is True
            and detail.get("swapped_parts_give_orf") is True)


def _sig_whole_ring(sub, spec, clause, detail) -> bool:
    """ an ORF as long as the record, in a window not starting at the origin, becomes [a:a) """
    if not detail.get("whole_ring_orf"):
        return False
    if clause == "scan_wellformed":
        return detail.get("empty_location") is True
    if clause == "search_total":
        return detail.get("exception") == "IndexError" and "create_feature_from_location" in detail.get("where", "")
    return False


def _hull(gene: dict) -> tuple:
    return min(p[0] for p in gene["parts"]), max(p[1] for p in gene["parts"])


def _sig_gap_moves_back(sub, spec, clause, detail) -> bool:
    """ ORF overlaps gene G by more than max_overlap where another gene that sorts after G ends
        before G's end (the running gap start is moved backwards) """
    if clause != "search_overlap" or detail.get("lookup_missed"):
        return False
    genes = spec["genes"]
    start, end = _hull(genes[detail["gene"]])
    for index, other in enumerate(genes):
        if index == detail["gene"]:
            continue
        o_start, o_end = _hull(other)
        if o_start >= start and o_end < end:
            return True
    return False


def _sig_spanning_gene_both_sides(sub, spec, clause, detail) -> bool:
    """ origin-crossing area and a gene with bases on both sides of the origin (origin-spanning, or
        from 0 to L): the padding is granted on each side, the merged window lies inside the gene;
        the ORF stays within max_overlap of the origin and overlaps the gene by <= max_overlap per side """
    if clause != "search_overlap" or detail.get("lookup_missed"):
        return False
    area = spec.get("area")
    if not area or len(area["parts"]) != 2 or len(detail["location"]["parts"]) != 2:
        return False
    length = len(spec["seq"])
    pad = spec["pad"]
    gene = ring.bases(spec["genes"][detail["gene"]])
    orf = ring.bases(detail["location"])
    before = {base for base in orf if base >= length - pad}
    after = {base for base in orf if base < pad}
    if before | after != orf or not (gene & before) or not (gene & after):
        return False
    return len(gene & before) <= pad and len(gene & after) <= pad and detail["overlap"] <= 2 * pad


def _sig_tiny_gene_at_origin(sub, spec, clause, detail) -> bool:
    """ origin-crossing area with a gene lying entirely within max_overlap of the origin: two
        gaps touch the origin and the internal assertion fails """
    if clause != "search_total" or detail.get("exception") != "AssertionError":
        return False
    if "_find_cross_origin_intergenic" not in detail.get("where", ""):
        return False
    area = spec.get("area")
    if not area or len(area["parts"]) != 2:
        return False
    length = len(spec["seq"])
    pad = spec["pad"]
    for gene in spec["genes"]:
        start, end = _hull(gene)     # what the code works with, 0..L for an origin-spanning gene
        if end <= pad or start >= length - pad:
            return True
    return False


def _sig_trim_wrapped(sub, spec, clause, detail) -> bool:
    """ get_trimmed_orf on an ORF that wraps the origin builds its result from the hull """
    return clause == "trim_is_suffix" and len(spec["orf"]["parts"]) == 2


SIGNATURES = {
    "exact_minimum_length_dropped": _sig_exact_min,
    "reverse_wrapped_part_order": _sig_reverse_wrap,
    "whole_ring_orf_empty_location": _sig_whole_ring,
    "gap_start_moves_backwards": _sig_gap_moves_back,
    "spanning_gene_padding_both_sides": _sig_spanning_gene_both_sides,
    "tiny_gene_at_origin_assertion": _sig_tiny_gene_at_origin,
    "trim_wrapped_orf": _sig_trim_wrapped,
}


def _raise_most_novel(sub: str, spec: dict, problems: list) -> None:
    """ several clauses can fail on one case; report one that matches no signature if there is one,
        so that a described defect never hides a different failure on the same input """
    if not problems:
        return
    for clause, detail in problems:
        if not any(sig(sub, spec, clause, detail) for sig in SIGNATURES.values()):
            raise Violation(clause, detail)
    raise Violation(*problems[0])


# --------------------------------------------------------------------------- scan_orfs

def _fill(text: str, size: int) -> list:
    text = text or "C"
    return list((text * (size // len(text) + 1))[:size])


def _arc_of(loc: dict, length) -> tuple:
    """ (start, size) of a reported location, or None if it is not one arc in [0, length] """
    parts = loc["parts"]
    if len(parts) == 1:
        return parts[0][0], parts[0][1] - parts[0][0]
    if len(parts) == 2 and length is not None:
        upper = [p for p in parts if p[1] == length]
        lower = [p for p in parts if p[0] == 0]
        for first in upper:
            for second in lower:
                if first is not second:
                    return first[0], (length - first[0]) + second[1]
    return None


def _swapped_extract(location, seq) -> str:
    from antismash.common.secmet.locations import CompoundLocation
    return str(CompoundLocation(list(reversed(location.parts))).extract(seq))


def check_scan(spec: dict) -> dict:
    from Bio.Seq import Seq
    from antismash.common.all_orfs import scan_orfs
    chunk = spec["chunk"]
    direction = spec["dir"]
    offset = spec["off"]
    length = spec["L"]
    minimum = spec["min"]
    size = len(chunk)
    window = chunk if direction == 1 else revcomp(chunk)
    if length is None:
        assert offset >= 0
        bases = _fill(spec.get("fill", "C"), offset + size + spec.get("tail", 0))
        bases[offset:offset + size] = window
    else:
        assert 1 <= length and size <= length and -length <= offset <= length, "generator out of domain"
        bases = _fill(spec.get("fill", "C"), length)
        for index, char in enumerate(window):
            bases[(offset + index) % length] = char
    record_seq = Seq("".join(bases))

    argument = Seq(chunk) if spec.get("as_seq") else chunk
    with code_under_test("scan_total"):
        if length is None:
            reported = scan_orfs(argument, direction, offset=offset, minimum_length=minimum)
        else:
            reported = scan_orfs(argument, direction, offset=offset, minimum_length=minimum, record_length=length)
        reported = list(reported)

    all_ref = ref_orfs(chunk, 0)
    want = {}
    for begin, end in all_ref:
        if end - begin < minimum:
            continue
        start = offset + begin if direction == 1 else offset + size - end
        if length is not None:
            start %= length
        want[(start, end - begin)] = chunk[begin:end]
    whole_ring = length is not None and any(e - b == length for b, e in all_ref) and offset % length != 0

    problems = []
    got = {}
    for location in reported:
        loc = ring.from_bio(location)
        problem = ring.wellformed(loc, length)
        arc = None if problem else _arc_of(loc, length)
        if problem or arc is None:
            empty = any(p[0] == p[1] for p in loc["parts"])
            problems.append(("scan_wellformed", {"location": loc, "problem": problem or "not a single arc",
                                                 "empty_location": empty, "whole_ring_orf": whole_ring}))
            continue
        if location.strand != direction or any(p.strand != direction for p in location.parts):
            problems.append(("scan_strand", {"location": loc}))
        if arc in got:
            problems.append(("scan_invented", {"duplicate": loc}))
        got[arc] = location
    invented = sorted(set(got) - set(want))
    if invented:
        problems.append(("scan_invented", {"invented": [{"start": a, "length": n} for a, n in invented],
                                           "reference": sorted(want)}))
    missing = sorted(set(want) - set(got))
    if whole_ring:
        # the ring-long ORF is already reported under scan_wellformed, do not count it twice
        missing = [arc for arc in missing if not (arc[1] == length and any(
            clause == "scan_wellformed" for clause, _ in problems))]
    if missing:
        problems.append(("scan_missing", {"missing": [{"start": a, "length": n, "orf": want[(a, n)]}
                                                      for a, n in missing], "minimum": minimum}))
    for arc in sorted(set(got) & set(want)):
        location = got[arc]
        text = str(location.extract(record_seq))
        if text != want[arc]:
            loc = ring.from_bio(location)
            two = len(loc["parts"]) == 2
            problems.append(("scan_extract", {
                "location": loc, "strand": location.strand, "extracted": text, "orf": want[arc],
                "forward_part_order": two and loc["parts"][0][1] == length and loc["parts"][1][0] == 0,
                "swapped_parts_give_orf": two and _swapped_extract(location, record_seq) == want[arc]}))
    _raise_most_novel("scan", spec, problems)

    lengths = [e - b for b, e in all_ref]
    wrapped = length is not None and any(a + n > length for a, n in want)
    near_min = any(0 <= n - minimum <= 3 for n in lengths)
    classes = [f"dir_{direction}",
               "L_none" if length is None else ("L_eq_len" if length == size else "L_gt_len"),
               "off_neg" if offset < 0 else ("off_zero" if offset == 0 else "off_pos"),
               f"orfs_{min(len(want), 3)}"]
    if wrapped:
        classes.append("wrapped_orf")
        classes.append(f"wrapped_orf_dir_{direction}")
    if length is not None and ((offset % length) + size > length):
        classes.append("window_crosses_origin")
    if any(n == minimum for n in lengths):
        classes.append("orf_len_eq_min")
    if any(n == minimum + 3 for n in lengths):
        classes.append("orf_len_eq_min_plus_codon")
    if any(n < minimum for n in lengths):
        classes.append("orf_below_min")
    if chunk != chunk.upper():
        classes.append("lower_case")
    if set(chunk.upper()) - set("ACGT"):
        classes.append("ambiguity_codes")
    if size % 3:
        classes.append("partial_codon_tail")
    if spec.get("as_seq"):
        classes.append("seq_object")
    nontrivial = bool(all_ref) and (direction == -1 or wrapped or near_min
                                    or (length is not None and offset % length != 0 and bool(want)))
    return {"nontrivial": nontrivial, "classes": classes}


# --------------------------------------------------------------------------- find_all_orfs

def _build_record(spec: dict):
    seq = spec["seq"]
    record = make_record(len(seq), spec["circular"], seq)
    for index, gene in enumerate(spec["genes"]):
        record.add_cds_feature(make_cds(gene, f"gene{index}", translation="M"))
    return record


def _window_of(area, length: int) -> tuple:
    """ (start, size) of the searched window """
    if area is None:
        return 0, length
    if len(area["parts"]) == 1:
        return area["parts"][0][0], area["parts"][0][1] - area["parts"][0][0]
    (a_start, a_end), (b_start, b_end) = area["parts"]
    assert a_end == length and b_start == 0
    return a_start, (a_end - a_start) + b_end


def _window_reference(seq: str, start: int, size: int, minimum: int) -> dict:
    """ reference ORFs of the window on both strands: (arc start, size, strand) -> text """
    length = len(seq)
    forward = (seq + seq)[start:start + size]
    found = {}
    for strand, chunk in ((1, forward), (-1, revcomp(forward))):
        for begin, end in ref_orfs(chunk, minimum):
            arc_start = start + begin if strand == 1 else start + size - end
            found[(arc_start % length, end - begin, strand)] = chunk[begin:end]
    return found


def _longest_covered_run(arc: tuple, length: int, covered: frozenset) -> int:
    """ the longest stretch of consecutive ORF bases (walking along the arc) that lie in `covered`.
        An ORF in a gap may reach up to max_overlap bases into the neighbouring gene at *each* end of
        the gap; on a ring both neighbours can be the same gene, so stretches are judged one by one. """
    start, size = arc
    best = run = 0
    for index in range(size):
        if (start + index) % length in covered:
            run += 1
            best = max(best, run)
        else:
            run = 0
    return best


def _orf_problem(prefix: str, location, record_seq, length: int, extra: dict) -> list:
    """ clauses every feature location must satisfy: well formed arc, extracts to an ORF """
    loc = ring.from_bio(location)
    problem = ring.wellformed(loc, length)
    arc = None if problem else _arc_of(loc, length)
    if problem or arc is None or location.strand not in (1, -1):
        return [(f"{prefix}_wellformed", dict(extra, location=loc, problem=problem or "not one arc / strand"))]
    text = str(location.extract(record_seq))
    if not is_orf_text(text):
        two = len(loc["parts"]) == 2
        return [(f"{prefix}_is_orf", dict(
            extra, location=loc, strand=location.strand, extracted=text,
            forward_part_order=two and loc["parts"][0][1] == length and loc["parts"][1][0] == 0,
            swapped_parts_give_orf=two and is_orf_text(_swapped_extract(location, record_seq))))]
    return []


def check_search(spec: dict) -> dict:
    from antismash.common.all_orfs import find_all_orfs
    from antismash.common.secmet.features import CDSCollection, CDSFeature
    seq = spec["seq"]
    length = len(seq)
    genes = spec["genes"]
    area_spec = spec.get("area")
    minimum = spec["min"]
    pad = spec["pad"]
    record = _build_record(spec)
    area = CDSCollection(to_loc(area_spec), feature_type="Area") if area_spec else None
    area_bases = ring.bases(area_spec) if area_spec else frozenset(range(length))
    win_start, win_size = _window_of(area_spec, length)
    gene_bases = [ring.bases(gene) for gene in genes]
    # no gene anywhere near the searched window, not even with its hull (an origin-spanning gene's hull is the record)
    gene_free = not any(area_bases.intersection(range(*_hull(gene))) for gene in genes)
    reference = _window_reference(seq, win_start, win_size, 0) if win_size else {}
    whole_ring = any(n == length for _, n, _ in reference) and win_start != 0

    # which genes does the record's own lookup fail to report for the searched parts (C08's subject)
    lookup_missed = []
    if area_spec:
        found_names = set()
        try:
            for part in to_loc(area_spec).parts:
                found_names.update(cds.get_name() for cds in
                                   record.get_cds_features_within_location(part, with_overlapping=True))
        except Exception:  # pylint: disable=broad-except
            found_names = None   # the search itself will fail the same way and be reported as search_total
        if found_names is not None:
            for index in range(len(genes)):
                if gene_bases[index] & area_bases and f"gene{index}" not in found_names:
                    lookup_missed.append(index)

    try:
        with code_under_test("search_total"):
            if area is None:
                features = find_all_orfs(record, min_length=minimum, max_overlap=pad)
            else:
                features = find_all_orfs(record, area, min_length=minimum, max_overlap=pad)
    except Violation as vio:
        vio.detail["whole_ring_orf"] = whole_ring
        raise
    problems = []
    got = {}
    for feature in features:
        if not isinstance(feature, CDSFeature):
            problems.append(("search_wellformed", {"type": type(feature).__name__}))
            continue
        bad = _orf_problem("search", feature.location, record.seq, length, {})
        problems.extend(bad)
        if bad and bad[0][0] == "search_wellformed":
            continue
        loc = ring.from_bio(feature.location)
        bases = ring.bases(loc)
        arc = _arc_of(loc, length)
        got[(arc[0] % length, arc[1], feature.location.strand)] = feature
        if len(bases) < minimum:
            problems.append(("search_below_minimum", {"location": loc, "minimum": minimum}))
        if not bases <= area_bases:
            problems.append(("search_in_area", {"location": loc, "outside": sorted(bases - area_bases)[:10]}))
        for index, other in enumerate(gene_bases):
            shared = _longest_covered_run(arc, length, other) if bases & other else 0
            if shared > pad:
                problems.append(("search_overlap", {"location": loc, "gene": index, "overlap": shared,
                                                    "total_overlap": len(bases & other),
                                                    "max_overlap": pad, "lookup_missed": lookup_missed}))
        if not bad:
            text = str(feature.location.extract(record.seq))
            expected, exact = expected_translation(text)
            translation = str(feature.translation)
            matches = translation == expected if exact else (
                bool(translation) and expected.startswith(translation[:len(expected)]) and len(translation) <= len(expected))
            if not matches:
                problems.append(("search_translation", {"location": loc, "translation": translation,
                                                        "expected": expected, "orf": text}))
    wanted = {key: text for key, text in reference.items() if key[1] >= minimum}
    # find_intergenic_areas documents dropping gaps shorter than min_length and does so for each side of
    # the origin separately; exactness is asserted only where both sides are searched (see notes)
    both_sides_searched = not (area_spec and len(area_spec["parts"]) == 2) or all(
        end - start >= minimum for start, end in area_spec["parts"])
    if gene_free and both_sides_searched:
        invented = sorted(set(got) - set(wanted))
        if invented:
            problems.append(("search_invented", {"invented": [list(key) for key in invented]}))
        missing = sorted(set(wanted) - set(got))
        if missing:
            problems.append(("search_missing", {"missing": [{"start": a, "length": n, "strand": s}
                                                            for a, n, s in missing], "minimum": minimum}))
    _raise_most_novel("search", spec, problems)

    classes = ["circular" if spec["circular"] else "linear",
               "area_none" if not area_spec else ("area_cross" if len(area_spec["parts"]) == 2 else "area_simple"),
               f"genes_{min(len(genes), 3)}", f"results_{min(len(features), 3)}",
               "gene_free" if gene_free else "genes_in_window"]
    if gene_free and both_sides_searched:
        classes.append("exactness_asserted")
    if not both_sides_searched:
        classes.append("origin_side_shorter_than_min")
    near_gene = False
    for key, feature in got.items():
        bases = ring.bases(ring.from_bio(feature.location))
        for other in gene_bases:
            shared = _longest_covered_run(key[:2], length, other) if bases & other else 0
            if shared == pad and pad:
                classes.append("overlap_eq_max")
            if shared:
                classes.append("overlap_some")
            if len(bases & other) > shared:
                classes.append("same_gene_at_both_ends")
            if ring.dist_sets(bases, other, length if spec["circular"] else None) <= 2 * pad:
                near_gene = True
        if len(feature.location.parts) == 2:
            classes.append(f"wrapped_result_{feature.location.strand}")
    if len({str(f.location) for f in features}) != len(features):
        classes.append("duplicate_results")   # measured only, see notes
    if any(gen.is_span(gene) for gene in genes):
        classes.append("spanning_gene")
    if any(len(gene["parts"]) > 1 and not gen.is_span(gene) for gene in genes):
        classes.append("multi_exon_gene")
    if any(_hull(gene)[1] - _hull(gene)[0] <= 2 * pad for gene in genes):
        classes.append("gene_shorter_than_2pad")
    if lookup_missed:
        classes.append("lookup_missed_gene")
    near_min = any(0 <= key[1] - minimum <= 3 for key in reference)
    if any(key[1] == minimum for key in reference):
        classes.append("orf_len_eq_min")
    nontrivial = bool(got or wanted) and (near_gene or near_min or bool(area_spec and len(area_spec["parts"]) == 2)
                                          or any(key[2] == -1 for key in got))
    return {"nontrivial": nontrivial, "classes": sorted(set(classes))}


# --------------------------------------------------------------------------- create_feature / trimming

def check_feature(spec: dict) -> dict:
    from antismash.common.all_orfs import create_feature_from_location, get_trimmed_orf
    seq = spec["seq"]
    length = len(seq)
    record = make_record(length, spec["circular"], seq)
    orf = spec["orf"]
    location = to_loc(orf)
    orf_text = str(location.extract(record.seq))
    assert is_orf_text(orf_text), "generator must supply an ORF location"
    with code_under_test("feature_total"):
        feature = create_feature_from_location(record, location, label=spec.get("label"))
    problems = []
    if ring.from_bio(feature.location) != {"parts": orf["parts"], "strand": orf["strand"]}:
        problems.append(("feature_location", {"location": ring.from_bio(feature.location)}))
    expected, exact = expected_translation(orf_text)
    translation = str(feature.translation)
    if exact and translation != expected:
        problems.append(("feature_translation", {"translation": translation, "expected": expected}))
    if not exact and not (translation and expected.startswith(translation)):
        problems.append(("feature_translation", {"translation": translation, "expected_prefix_of": expected}))
    _raise_most_novel("feature", spec, problems)

    classes = [f"strand_{orf['strand']}", "wrapped" if len(orf["parts"]) == 2 else "plain",
               "alt_start" if orf_text[:3].upper() != "ATG" else "atg", "exact" if exact else "ambiguous_stop"]
    trim = spec.get("trim")
    if trim is None:
        return {"nontrivial": len(orf["parts"]) == 2 or orf["strand"] == -1 or orf_text[:3].upper() != "ATG",
                "classes": classes}
    kwargs = {key: trim[key] for key in ("include", "min_length", "max_length", "label") if trim.get(key) is not None}
    effective_max = trim.get("max_length")
    if effective_max is None:
        effective_max = len(orf_text)
    try:
        trimmed = get_trimmed_orf(feature, record, **kwargs)
    except ValueError as err:
        if trim.get("min_length", 0) > effective_max:
            return {"nontrivial": False, "classes": classes + ["trim_rejected_min_gt_max"]}
        raise Violation("trim_total", {"exception": "ValueError", "message": str(err)[:200]}) from err
    except Exception as err:  # pylint: disable=broad-except
        raise Violation("trim_total", {"exception": type(err).__name__, "message": str(err)[:200]}) from err
    if trimmed is None:
        return {"nontrivial": False, "classes": classes + ["trim_none"]}
    loc = ring.from_bio(trimmed.location)
    problem = ring.wellformed(loc, length)
    if problem or trimmed.location.strand != orf["strand"]:
        problems.append(("trim_wellformed", {"location": loc, "problem": problem or "strand changed"}))
    else:
        text = str(trimmed.location.extract(record.seq))
        is_suffix = (orf_text.endswith(text) and len(text) % 3 == 0 and text[:3].upper() in STARTS
                     and ring.bases(loc) <= ring.bases(orf))
        if not is_suffix:
            problems.append(("trim_is_suffix", {"location": loc, "extracted": text, "orf": orf_text}))
        else:
            t_expected, t_exact = expected_translation(text)
            t_translation = str(trimmed.translation)
            if (t_exact and t_translation != t_expected) or (
                    not t_exact and not (t_translation and t_expected.startswith(t_translation))):
                problems.append(("trim_translation", {"location": loc, "translation": t_translation,
                                                      "expected": t_expected}))
    _raise_most_novel("feature", spec, problems)
    classes.append("trim_shorter" if len(ring.bases(loc)) < len(orf_text) else "trim_same")
    return {"nontrivial": True, "classes": classes}


SUBCHECKS = {
    "scan": check_scan,
    "scan_enum": check_scan,
    "search": check_search,
    "search_enum": check_search,
    "search_free": check_search,
    "feature": check_feature,
}


# --------------------------------------------------------------------------- enumerations

ENUM_CODONS = ("ATG", "TTG", "TAA", "TGA", "AAA")


def enum_scan(max_codons: int, full_codons: int):
    """ every codon string of <= max_codons; strings of <= full_codons codons get every
        (lead, tail, L, offset, direction, minimum); longer ones a reduced but systematic set """
    def cases():
        for count in range(0, max_codons + 1):
            full = count <= full_codons
            pads = ("", "A", "CA") if full else ("", "A")
            for combo in itertools.product(ENUM_CODONS, repeat=count):
                body = "".join(combo)
                for lead in pads:
                    for tail in (pads if full else ("", "CA")):
                        chunk = lead + body + tail
                        size = len(chunk)
                        if full:
                            minima = (0, 6, 9, 10)
                        else:
                            minima = (0, 3 * count, 3 * count - 3)
                        lengths = [None]
                        if size:
                            lengths += [size, size + 1] + ([size + 4] if full else [])
                        for length in lengths:
                            if length is None:
                                offsets = (0, 1, 5)
                            elif full:
                                offsets = range(-length, length + 1)
                            else:
                                offsets = sorted({-length, -size, -size + 1, -2, -1, 0, 1, 2, 3,
                                                  length - size, length - 1, length} & set(range(-length, length + 1)))
                            for offset in offsets:
                                for direction in (1, -1):
                                    for minimum in minima:
                                        yield {"chunk": chunk, "dir": direction, "off": offset, "L": length,
                                               "min": minimum, "fill": "C"}
    return cases


DENSE_RINGS = (
    "ATGTAACTTACATC" * 3,                       # 6-nt ORFs on both strands, every frame
    ("ATGTAACTTACATC" * 3)[37:] + ("ATGTAACTTACATC" * 3)[:37],   # the same ring cut inside an ORF
    "ATGAAATGACTCATTTCATC" * 2 + "AC",          # 9-nt ORFs, both strands, overlapping each other
)


def enum_search(step: int, sizes: tuple, pads: tuple):
    """ all layouts of one or two genes on a coordinate grid over ORF-dense rings, with every
        kind of area; minimum 0 so every short ORF counts """
    def cases():
        for seq in DENSE_RINGS:
            length = len(seq)
            starts = range(0, length, step)
            single = []
            for start in starts:
                for size in sizes:
                    if size > length:
                        continue
                    for strand in (1, -1):
                        loc = ring.arc_to_loc(start, size, length, strand)
                        single.append(loc)
            areas = [None, {"parts": [[5, length - 3]], "strand": 1},
                     {"parts": [[length - 15, length], [0, 16]], "strand": 1},
                     {"parts": [[9, length], [0, 9]], "strand": 1}]
            for pad in pads:
                for area in areas:
                    for first in single:
                        layouts = [[first]]
                        if first["strand"] == 1:
                            for second in single:
                                if second["strand"] == -1 and second["parts"] != first["parts"]:
                                    layouts.append([first, second])
                        for genes in layouts:
                            circular = True
                            yield {"seq": seq, "circular": circular, "genes": genes, "area": area,
                                   "min": 0, "pad": pad}
    return cases


def enum_search_free(max_codons: int):
    """ no genes: the result must be exactly the reference set; all codon strings as whole rings
        with an origin-crossing area starting at every position, or searched without an area """
    def cases():
        for count in range(2, max_codons + 1):
            for combo in itertools.product(ENUM_CODONS, repeat=count):
                body = "".join(combo)
                for tail in ("", "C", "CA"):
                    seq = body + tail
                    length = len(seq)
                    for minimum in (0, 6, 3 * count):
                        yield {"seq": seq, "circular": True, "genes": [], "area": None, "min": minimum, "pad": 10}
                        yield {"seq": seq, "circular": False, "genes": [], "area": None, "min": minimum, "pad": 0}
                        for cut in range(1, length):
                            area = {"parts": [[cut, length], [0, cut]], "strand": 1}
                            yield {"seq": seq, "circular": True, "genes": [], "area": area, "min": minimum, "pad": 3}
                        if length > 4:
                            area = {"parts": [[length - 2, length], [0, 2]], "strand": 1}
                            yield {"seq": seq, "circular": True, "genes": [], "area": area, "min": minimum, "pad": 3}
                            yield {"seq": seq, "circular": False, "genes": [],
                                   "area": {"parts": [[1, length - 1]], "strand": 1}, "min": minimum, "pad": 3}
    return cases


# --------------------------------------------------------------------------- random strategies

POOL = ("ATG", "GTG", "TTG", "TAA", "TAG", "TGA",           # starts and stops
        "CAT", "CAC", "CAA", "TTA", "CTA", "TCA",           # their reverse complements
        "AAA", "CCC", "GCA", "NNN", "TAR", "RTG", "ATN", "YAA", "AAT", "GAT")
POOL_WEIGHTED = POOL[:12] * 3 + POOL[12:]
POOL_QUIET = ("AAA", "CCC", "GCA", "GAT", "AAT", "CAC", "CAA", "ACC", "GGC", "ATG", "CAT", "TTG", "TAA", "TTA", "NNN")
IUPAC = "ACGTRYSWKMBDHVN"


@st.composite
def dna_chunks(draw, max_codons: int = 30, planted: bool = True, min_codons: int = 0, force_plant: bool = False) -> str:
    """ start/stop-rich DNA: codons from the pool, optional planted ORFs on either strand,
        0-2 extra bases at both ends, optional lower case and stray IUPAC letters """
    pool = draw(st.sampled_from((POOL_WEIGHTED, POOL_QUIET, POOL_QUIET[:9])))
    pieces = list(draw(st.lists(st.sampled_from(pool), min_size=min_codons, max_size=max_codons)))
    if planted and (force_plant or draw(st.integers(0, 3)) > 0):
        for _ in range(draw(st.integers(1, 3))):
            inner = draw(st.lists(st.sampled_from(("AAA", "CCC", "GCA", "ATG", "CAT", "NNN", "GAT")),
                                  min_size=0, max_size=draw(st.sampled_from((1, 2, 3, 19, 20)))))
            orf = draw(st.sampled_from(STARTS)) + "".join(inner) + draw(st.sampled_from(STOPS))
            if draw(st.booleans()):
                orf = revcomp(orf)
            shift = draw(st.sampled_from(("", "", "C", "CC")))
            position = draw(st.integers(0, len(pieces)))
            pieces.insert(position, shift + orf)
    text = draw(st.sampled_from(("", "", "A", "CA"))) + "".join(pieces) + draw(st.sampled_from(("", "", "A", "CA")))
    mode = draw(st.integers(0, 9))
    if mode == 0:
        text = text.lower()
    elif mode == 1 and text:
        chars = list(text)
        for _ in range(draw(st.integers(1, 4))):
            index = draw(st.integers(0, len(chars) - 1))
            chars[index] = chars[index].lower() if draw(st.booleans()) else draw(st.sampled_from(IUPAC))
        text = "".join(chars)
    return text


@st.composite
def scan_specs(draw):
    chunk = draw(dna_chunks(max_codons=draw(st.sampled_from((4, 12, 30, 100))), force_plant=draw(st.integers(0, 2)) > 0))
    size = len(chunk)
    direction = draw(st.sampled_from((1, -1)))
    orf_lengths = sorted({e - b for b, e in ref_orfs(chunk, 0)})
    minima = [0, 0, 0, 3, 6, 9, 60]
    for value in orf_lengths[:6]:
        minima.extend((value - 3, value - 1, value, value + 1))
    minimum = draw(st.sampled_from(minima))
    spec = {"chunk": chunk, "dir": direction, "min": max(0, minimum),
            "fill": draw(st.sampled_from(("C", "C", "CCGCA", "ATGAAATAG")))}
    if draw(st.integers(0, 4)) == 0:
        spec.update({"L": None, "off": draw(st.one_of(st.integers(0, 12), st.integers(0, 400))),
                     "tail": draw(st.integers(0, 5))})
    else:
        extra = draw(st.sampled_from((0, 0, 0, 1, 2, 3, 4, 7, 60)))
        length = max(1, size + extra)
        anchors = [length - size, -size]
        for begin, end in ref_orfs(chunk, 0)[:4]:
            # offsets that put this ORF across the origin (just, in the middle, almost completely)
            low = begin if direction == 1 else size - end
            for inside in (1, (end - begin) // 2, end - begin - 1):
                anchors.extend((length - low - inside, -low - inside))
        anchors = tuple(a for a in anchors if -length <= a <= length)
        spec.update({"L": length, "off": draw(gen.coord(-length, length, anchors=anchors))})
    if draw(st.integers(0, 7)) == 0:
        spec["as_seq"] = True
    return spec


def _all_orf_arcs(seq: str) -> list:
    """ (start, size, strand) of every reference ORF of the ring read twice (so wrapped ones are included) """
    length = len(seq)
    if not length:
        return []
    found = set()
    doubled = seq + seq
    for strand, text in ((1, doubled), (-1, revcomp(doubled))):
        for begin, end in ref_orfs(text, 0):
            if end - begin > length:
                continue
            start = begin if strand == 1 else 2 * length - end
            found.add((start % length, end - begin, strand))
    return sorted(found)


@st.composite
def gene_layouts(draw, length: int, circular: bool, pad: int, anchors: tuple) -> list:
    """ 0..5 genes by construction: placed relative to anchors (ORF ends +- pad), chained so that
        they are adjacent, overlapping, nested or ending close to each other; some tiny, some
        multi-exon, some spanning the origin """
    genes = []
    count = draw(st.sampled_from((0, 1, 1, 1, 2, 2, 3, 4, 5)))
    previous = None
    for _ in range(count):
        if length < 3:
            break
        kind = draw(st.sampled_from(("free", "free", "nested_tail", "after", "tiny", "span", "exons")))
        strand = draw(st.sampled_from((1, -1)))
        if kind == "span" and circular and length > 6:
            size = draw(gen.coord(3, min(length - 1, 60)))
            start = draw(gen.coord(max(1, length - size + 1), length - 1, anchors))
            loc = ring.arc_to_loc(start, size, length, strand)
        elif kind == "exons" and length > 12:
            loc = draw(gen.exon_location(length, allow_span=False, strands=(strand,), max_parts=3,
                                         max_total=min(length, 90)))
            if sum(e - s for s, e in loc["parts"]) < 3:
                loc = {"parts": [[0, 3]], "strand": strand}
        else:
            if kind == "tiny":
                size = draw(st.integers(3, max(3, min(length, 2 * pad + 1))))
            else:
                size = draw(gen.coord(3, max(3, min(length // 2, 80))))
            if kind == "nested_tail" and previous is not None:
                p_start, p_end = previous
                # ends within the padding of the previous gene's end, starts inside it
                end = min(length, max(3, p_end + draw(st.integers(-pad - 1, 1))))
                start = max(0, min(end - 3, draw(gen.coord(p_start, max(p_start, end - 3)))))
            elif kind == "after" and previous is not None:
                start = min(length - 3, max(0, previous[1] + draw(st.integers(-pad - 1, 2 * pad + 2))))
                end = min(length, start + size)
            else:
                start = draw(gen.coord(0, length - size, anchors))
                end = start + size
            loc = {"parts": [[start, end]], "strand": strand}
        if loc["parts"] in [g["parts"] for g in genes]:
            continue
        loc.pop("kind", None)
        genes.append(loc)
        previous = _hull(loc)
    return genes


@st.composite
def search_specs(draw):
    max_codons = draw(st.sampled_from((4, 12, 30, 60, 120)))
    seq = draw(dna_chunks(max_codons=max_codons, min_codons=max_codons // 3, force_plant=draw(st.integers(0, 4)) > 0))
    if len(seq) < 6:
        seq = seq + "ATGAAATAG"
    length = len(seq)
    circular = draw(st.integers(0, 3)) > 0
    pad = draw(st.sampled_from((0, 1, 3, 10, 10, 10, 15)))
    arcs = _all_orf_arcs(seq)
    if circular and arcs and draw(st.booleans()):
        # rotate the ring so that one of its ORFs lies across the origin
        start, size, _ = draw(st.sampled_from(arcs))
        cut = (start + draw(st.integers(1, size - 1))) % length
        seq = seq[cut:] + seq[:cut]
        arcs = _all_orf_arcs(seq)
    anchors = [0, length]
    if arcs:
        for start, size, _ in draw(st.lists(st.sampled_from(arcs), min_size=1, max_size=3)):
            anchors.extend(((start + pad) % length, (start + size - pad) % length, start, (start + size) % length))
    anchors = tuple(anchors)
    genes = draw(gene_layouts(length, circular, pad, anchors))
    minima = [0, 0, 0, 0, 3, 6, 9, 12, 60]
    for _, size, _ in arcs[:6]:
        minima.extend((size - 3, size - 1, size, size + 1))
    minimum = max(0, draw(st.sampled_from(minima)))
    mode = draw(st.sampled_from(("none", "simple", "cross", "cross") if circular else ("none", "simple")))
    area = None
    small = 1 if draw(st.integers(0, 5)) == 0 else min(length, 9)
    if mode == "simple":
        size = draw(gen.coord(small, length))
        start = draw(gen.coord(0, length - size, anchors))
        area = {"parts": [[start, start + size]], "strand": draw(st.sampled_from((1, 1, -1)))}
    elif mode == "cross":
        size = draw(gen.coord(max(2, small), length))
        start = draw(gen.coord(max(1, length - size + 1), length - 1, anchors))
        area = {"parts": [[start, length], [0, start + size - length]], "strand": 1}
    return {"seq": seq, "circular": circular, "genes": genes, "area": area, "min": minimum, "pad": pad}


@st.composite
def feature_specs(draw):
    seq = draw(dna_chunks(max_codons=draw(st.sampled_from((6, 20, 60)))))
    arcs = _all_orf_arcs(seq)
    if not arcs:
        seq = seq + "ATGAAATTGCCCTAG" + revcomp("GTGAAAATGTAA")
        arcs = _all_orf_arcs(seq)
    length = len(seq)
    plain = [arc for arc in arcs if arc[0] + arc[1] <= length]
    wrapped = [arc for arc in arcs if arc[0] + arc[1] > length and arc[1] <= length]
    circular = bool(wrapped) and draw(st.booleans())
    choices = wrapped if circular and draw(st.integers(0, 2)) > 0 else (plain or wrapped)
    if choices is wrapped:
        circular = True
    start, size, strand = draw(st.sampled_from(choices))
    orf = ring.arc_to_loc(start, size, length, strand)
    spec = {"seq": seq, "circular": circular, "orf": orf, "label": draw(st.sampled_from((None, None, "orf_A")))}
    if draw(st.integers(0, 3)) > 0:
        trim = {}
        if draw(st.booleans()):
            trim["include"] = draw(gen.coord(0, size))
        if draw(st.booleans()):
            trim["min_length"] = draw(gen.coord(0, size + 3))
        if draw(st.booleans()):
            low = trim.get("min_length", 0) if draw(st.integers(0, 9)) else 0
            trim["max_length"] = draw(gen.coord(low, max(low, size + 6)))
        if draw(st.integers(0, 3)) == 0:
            trim["label"] = "trimmed_1"
        spec["trim"] = trim
    return spec


def run(ctx) -> None:
    shards = ctx.pick(8, 16)
    ctx.enum("scan_enum", enum_scan(ctx.pick(4, 6), ctx.pick(2, 3)), shards=shards)
    ctx.enum("search_free", enum_search_free(ctx.pick(3, 4)), shards=shards)
    ctx.enum("search_enum", enum_search(ctx.pick(5, 3), ctx.pick((6, 25), (4, 9, 25)), ctx.pick((0, 4), (0, 2, 4, 10))),
             shards=shards)
    rand_shards = ctx.pick(4, 16)
    ctx.hyp("scan", scan_specs(), max_examples=ctx.pick(6000, 100000), shards=rand_shards)
    ctx.hyp("search", search_specs(), max_examples=ctx.pick(4000, 60000), shards=rand_shards)
    ctx.hyp("feature", feature_specs(), max_examples=ctx.pick(1200, 30000), shards=rand_shards)
    ctx.extra["bounds"] = {"scan_enum_max_codons": ctx.pick(4, 6), "scan_enum_all_parameters_up_to_codons": ctx.pick(2, 3),
                           "search_free_max_codons": ctx.pick(3, 4)}
