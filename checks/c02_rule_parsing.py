""" C02 - rule text is parsed by the documented grammar, precedence and aliases """

from __future__ import annotations

import itertools
import os
import random
import shutil
import signal
import tempfile
import threading

from hypothesis import strategies as st

from vlib import rules
from vlib.build import make_cds
from vlib.runner import HarnessError, Violation, code_under_test
from checks.c01_rule_conditions import expression, _operand

PROPERTY_ID = "C02"
LEVEL = "exploration"
RULE = ("Rule FILES are generated from the documented grammar: 1-5 rules (optional DESCRIPTION/EXAMPLE/RELATED/SUPERIORS/"
        "EXTENDERS), conditions from the C01 tree generator rendered flat (only the parentheses the tree needs), 0-3 DEFINE "
        "aliases cut out of the condition token stream as arbitrary contiguous token slices (nested once), identifiers that "
        "look like keywords, comments and arbitrary whitespace between tokens, rules split over 1-3 files (create_rules) or "
        "chained parsers, four multiplier settings. Oracles: an independent tokenizer/recursive-descent parser + truth-table "
        "equivalence over all assignments of the rule's profiles to two in-range genes (sampled above 4 profiles), field "
        "equality, regenerate->reparse round trip, Ruleset.from_files scaling, one ill-formed file per documented rejection "
        "class, and the shipped strict/relaxed/loose rule files on sampled worlds. Non-trivial: the expression mixes >=2 "
        "operator kinds, or an alias is used, or a superior chain of length >=2 exists.")
ASSUMPTIONS = [
    "the reference parser in vlib/rules.py implements the documented precedence not > and > or and textual alias substitution",
    "condition meaning is compared by truth tables on two mutually in-range genes (C01 decides distances)",
    "rejection = any exception; acceptance of an ill-formed file = a rule list is returned",
    "round trip is asserted for unit multipliers only (kilobase text cannot express scaled distances)",
]

# every shape of the documented identifier grammar {[a-zA-Z0-9_-]}*[a-zA-Z]{[a-zA-Z0-9_-]}*: digits, hyphens and
# underscores may all precede the first letter
PROFILE_POOL = ["android", "nota", "cdsX", "minimumA", "RULEx", "AS1", "2-Hacid", "p_1", "Orf-7", "ks", "3_oxo", "_tail", "0-_x", "-_-9z"]
RULE_NAMES = ["T1PKS", "NRPS-like", "r2", "rule_b", "ectoine", "x-1", "Nota", "ORs", "1_core", "_r"]
CATEGORIES = ["PKS", "NRPS", "other", "cat-1"]
ALIAS_NAMES = ["ALIAS1", "grp-x", "lst_2", "shared", "_al", "7_b"]
WORDS = ["Type", "I", "polyketide", "synthase", "42", "like", "test-word", "x_y"]
MULTIPLIERS = [[1.0, 1.0], [1.0, 1.5], [0.5, 2.0], [2.5, 0.3]]


# --------------------------------------------------------------------------- helpers

def _tokens_of(text: str) -> list:
    return rules.tokenize(text)


def _join(tokens: list, seps: list) -> str:
    """ joins tokens with generated separators; an empty separator is only used next to punctuation """
    kinds = [" ", "  ", "\t", "\n", "\n    ", " # a comment, with (odd) [stuff] and RULE words\n", "", "\n# full line comment\n",
             "#comment glued to the symbol before it; the next symbol starts its line\n", "#\n", "\t#x\n\t"]
    out = []
    for index, token in enumerate(tokens):
        out.append(token)
        if index == len(tokens) - 1:
            break
        sep = kinds[seps[index % len(seps)] % len(kinds)] if seps else " "
        nxt = tokens[index + 1]
        if sep == "" and not (token in rules.PUNCT or nxt in rules.PUNCT):
            sep = " "
        out.append(sep)
    return "".join(out)


def _worlds_for(profiles: list, thresholds: list, sample_seed: int) -> list:
    """ all assignments of each profile to {none, g0, g1, both} (sampled above 4 profiles),
        with two score patterns when thresholds exist """
    profiles = sorted(profiles)
    low = (min(thresholds) - 1) if thresholds else 100
    high = max(thresholds) if thresholds else 100
    combos: list
    if len(profiles) <= 4:
        combos = list(itertools.product(range(4), repeat=len(profiles)))
    else:
        rng = random.Random(sample_seed)
        combos = [tuple(rng.randrange(4) for _ in profiles) for _ in range(160)]
    worlds = []
    for number, combo in enumerate(combos):
        patterns = [0] if not thresholds else [number * 7 + sample_seed, number * 13 + 5]
        for pattern in patterns:
            hits: dict = {"g0": {}, "g1": {}}
            for index, (profile, where) in enumerate(zip(profiles, combo)):
                for gene_index, gene in enumerate(("g0", "g1")):
                    if where & (1 << gene_index):
                        bit = (pattern >> (2 * index + gene_index)) & 1
                        hits[gene][profile] = high if bit or not thresholds else low
            worlds.append(hits)
    return worlds


def _thresholds(tree: list) -> list:
    kind = tree[0]
    if kind == "minscore":
        return [tree[2]]
    if kind in ("not", "group", "cds"):
        return _thresholds(tree[1])
    if kind in ("and", "or"):
        out: list = []
        for sub in tree[1]:
            out.extend(_thresholds(sub))
        return out
    return []


_FEATURES: dict = {}


def _compare_meaning(real_conditions_owner, tree: list, sample_seed: int, label: str, extenders: bool = False) -> int:
    """ truth tables of the real rule (via detect / can_extend_to) and of the reference AST must agree """
    from antismash.common.hmm_rule_parser.structures import ProfileHit
    if not _FEATURES:
        _FEATURES["g0"] = make_cds({"parts": [[0, 9]], "strand": 1}, "g0")
        _FEATURES["g1"] = make_cds({"parts": [[12, 21]], "strand": -1}, "g1")
    worlds = _worlds_for(sorted(rules.profiles_of(tree)), _thresholds(tree), sample_seed)
    near = {"g0": {"g0", "g1"}, "g1": {"g0", "g1"}}
    for hits in worlds:
        results = {gene: [ProfileHit(gene, p, float(s), 1e-9) for p, s in sorted(found.items())]
                   for gene, found in hits.items() if found}
        world = rules.World(hits, near)
        for gene in ("g0", "g1"):
            if extenders:
                with code_under_test(f"{label}_total"):
                    got = real_conditions_owner.can_extend_to(_FEATURES[gene], results.get(gene, []))
                want = rules.evaluate(tree, gene, rules.World(hits, {"g0": {"g0"}, "g1": {"g1"}}), local=False)
                if bool(got) != want:
                    raise Violation(f"{label}_meaning", {"gene": gene, "hits": hits, "got": bool(got), "want": want,
                                                         "reference": rules.render(tree)})
                continue
            with code_under_test(f"{label}_total"):
                got = real_conditions_owner.detect(gene, _FEATURES, results, circular_origin=0)
            want = rules.evaluate(tree, gene, world)
            if bool(got.met) != want:
                raise Violation(f"{label}_meaning", {"gene": gene, "hits": hits, "got": got.met, "want": want,
                                                     "reference": rules.render(tree)})
            want_reasons = rules.reasons(tree, gene, world)
            if set(got.matches) != want_reasons:
                raise Violation(f"{label}_reasons", {"gene": gene, "hits": hits, "got": sorted(got.matches),
                                                     "want": sorted(want_reasons), "reference": rules.render(tree)})
    return len(worlds)


PARSE_LIMIT = 10       # seconds; the files generated here parse in milliseconds


def _parse_real(spec: dict):
    """ the real parser on the files of a spec; a parse that is still running after PARSE_LIMIT seconds is reported
        as not terminating (text is neither turned into rules nor rejected) """
    def expired(_signum, _frame):
        raise Violation("parser_does_not_terminate", {"files": spec["files"], "seconds": PARSE_LIMIT})
    watched = threading.current_thread() is threading.main_thread()
    if watched:
        previous = signal.signal(signal.SIGALRM, expired)
        remaining = signal.alarm(PARSE_LIMIT)
    try:
        return _parse_real_unwatched(spec)
    finally:
        if watched:
            signal.alarm(0)
            signal.signal(signal.SIGALRM, previous)
            if remaining:
                signal.alarm(remaining)


def _parse_real_unwatched(spec: dict):
    from antismash.common.hmm_rule_parser import cluster_prediction, rule_parser
    from antismash.common.hmm_rule_parser.structures import Multipliers
    multipliers = Multipliers(*spec["multipliers"])
    profiles = set(spec["profiles"])
    categories = set(spec["categories"])
    if spec["mode"] == "create_rules":
        tmp = tempfile.mkdtemp(prefix="verif_c02_")
        try:
            paths = []
            for index, text in enumerate(spec["files"]):
                path = os.path.join(tmp, f"rules{index}.txt")
                with open(path, "w", encoding="utf-8") as handle:
                    handle.write(text)
                paths.append(path)
            return cluster_prediction.create_rules(paths, profiles, categories, multipliers)
        finally:
            shutil.rmtree(tmp, ignore_errors=True)
    parsed: list = []
    aliases: dict = {}
    for text in spec["files"]:
        parser = rule_parser.Parser(text, profiles, categories, parsed, existing_aliases=aliases,
                                    multipliers=multipliers)
        aliases.update(parser.aliases)
        parsed = parser.rules
    return parsed


# --------------------------------------------------------------------------- well-formed files

def check_wellformed(spec: dict) -> dict:
    from antismash.common.hmm_rule_parser import rule_parser
    try:
        reference = rules.parse_file("\n".join(spec["files"]))
    except rules.RefSyntaxError as err:
        raise HarnessError(f"reference parser rejected a generated file: {err}\n{spec['files']}") from err
    try:
        real = _parse_real(spec)
    except Violation:
        raise
    except Exception as err:  # pylint: disable=broad-except
        raise Violation("wellformed_rejected", {"exception": type(err).__name__, "message": str(err)[:300]}) from err
    if [rule.name for rule in real] != [rule["name"] for rule in reference["rules"]]:
        raise Violation("rule_names", {"got": [rule.name for rule in real],
                                       "want": [rule["name"] for rule in reference["rules"]]})
    cutoff_mult, neighbourhood_mult = spec["multipliers"]
    closures: dict = {}
    worlds = 0
    for rule, ref in zip(real, reference["rules"]):
        closure = set(ref["superiors"])
        for parent in ref["superiors"]:
            closure |= closures[parent]
        closures[ref["name"]] = closure
        fields = {
            "category": (rule.category, ref["category"]),
            "cutoff": (rule.cutoff, int(ref["cutoff_kb"] * 1000 * cutoff_mult)),
            "neighbourhood": (rule.neighbourhood, int(ref["neighbourhood_kb"] * 1000 * neighbourhood_mult)),
            "superiors": (list(rule.superiors), sorted(closure)),
            "related": (sorted(rule.related), sorted(ref["related"])),
            "description": (rule.description, ref["description"]),
        }
        for key, (got, want) in fields.items():
            if got != want:
                raise Violation(f"field_{key}", {"rule": rule.name, "got": got, "want": want})
        # distances are parsed into bases; evaluate with everything in range
        saved = rule.cutoff
        rule.cutoff = 10 ** 6
        worlds += _compare_meaning(rule, ref["conditions"], spec["sample_seed"], "conditions")
        rule.cutoff = saved
        if (rule.extenders is None) != (ref["extenders"] is None):
            raise Violation("field_extenders", {"rule": rule.name, "got": str(rule.extenders)})
        if ref["extenders"] is not None:
            worlds += _compare_meaning(rule, ref["extenders"], spec["sample_seed"], "extenders", extenders=True)
        # regenerated text parses back to the same rule (unit multipliers)
        if spec["multipliers"] == [1.0, 1.0]:
            text = rule.reconstruct_rule_text()
            try:
                again = rule_parser.Parser(text, set(spec["profiles"]), set(spec["categories"])).rules
            except Exception as err:  # pylint: disable=broad-except
                raise Violation("roundtrip_rejected", {"text": text, "exception": type(err).__name__,
                                                       "message": str(err)[:200]}) from err
            if len(again) != 1 or again[0].name != rule.name or again[0].cutoff != rule.cutoff \
                    or again[0].neighbourhood != rule.neighbourhood:
                raise Violation("roundtrip_fields", {"text": text})
            again[0].cutoff = 10 ** 6
            _compare_meaning(again[0], ref["conditions"], spec["sample_seed"], "roundtrip")
    trees = [ref["conditions"] for ref in reference["rules"]]
    mixed = any(len(rules.operator_kinds(tree) & {"and", "or", "not"}) >= 2 for tree in trees)
    chain = any(len(closure) >= 2 for closure in closures.values())
    classes = [f"rules_{len(real)}", f"files_{len(spec['files'])}", spec["mode"],
               "alias" if reference["aliases"] else "no_alias", "mult_" + "_".join(map(str, spec["multipliers"]))]
    if chain:
        classes.append("superior_chain")
    if any(ref["extenders"] is not None for ref in reference["rules"]):
        classes.append("extenders")
    return {"nontrivial": mixed or bool(reference["aliases"]) or chain, "classes": classes, "worlds": worlds}


# --------------------------------------------------------------------------- Ruleset.from_files scaling

def check_ruleset_scaling(spec: dict) -> dict:
    from antismash.common.hmm_rule_parser.cluster_prediction import Ruleset
    from antismash.common.hmm_rule_parser.structures import DynamicProfile, Multipliers
    reference = rules.parse_file("\n".join(spec["files"]))
    tmp = tempfile.mkdtemp(prefix="verif_c02_")
    try:
        paths = []
        for index, text in enumerate(spec["files"]):
            path = os.path.join(tmp, f"rules{index}.txt")
            with open(path, "w", encoding="utf-8") as handle:
                handle.write(text)
            paths.append(path)
        sig_path = os.path.join(tmp, "signatures.json")
        with open(sig_path, "w", encoding="utf-8") as handle:
            handle.write("# no HMM profiles, dynamic profiles only\n")
        filter_path = os.path.join(tmp, "filter.txt")
        open(filter_path, "w", encoding="utf-8").close()
        dynamic = {name: DynamicProfile(name, "desc", lambda record, hits: {}) for name in spec["profiles"]}
        with code_under_test("from_files_total"):
            ruleset = Ruleset.from_files(sig_path, os.path.join(tmp, "none.hmm"), paths, set(spec["categories"]),
                                         filter_path, "verif", dynamic_profiles=dynamic,
                                         multipliers=Multipliers(*spec["multipliers"]))
    finally:
        shutil.rmtree(tmp, ignore_errors=True)
    for rule, ref in zip(ruleset.rules, reference["rules"]):
        want_cutoff = int(ref["cutoff_kb"] * 1000 * spec["multipliers"][0])
        want_neighbourhood = int(ref["neighbourhood_kb"] * 1000 * spec["multipliers"][1])
        # int() truncation may be applied in one or two steps; allow one base per step
        if abs(rule.cutoff - want_cutoff) > 1 or abs(rule.neighbourhood - want_neighbourhood) > 1:
            raise Violation("ruleset_scaling", {"rule": rule.name, "multipliers": spec["multipliers"],
                                                "got": [rule.cutoff, rule.neighbourhood],
                                                "want": [want_cutoff, want_neighbourhood]})
    return {"nontrivial": spec["multipliers"] != [1.0, 1.0], "classes": ["mult_" + "_".join(map(str, spec["multipliers"]))]}


# --------------------------------------------------------------------------- ill-formed files

def check_illformed(spec: dict) -> dict:
    try:
        real = _parse_real(spec)
    except Violation:
        raise
    except Exception:  # pylint: disable=broad-except
        return {"nontrivial": True, "classes": [f"rejected_{spec['class']}"]}
    raise Violation("illformed_accepted", {"class": spec["class"], "files": spec["files"],
                                           "rules": [str(rule) for rule in real]})


# --------------------------------------------------------------------------- shipped rule files

_SHIPPED: dict = {}


def _shipped_reference() -> dict:
    """ the shipped rule files read by the reference parser only """
    if "reference" not in _SHIPPED:
        from antismash.detection import hmm_detection
        files = hmm_detection._get_rule_files_for_strictness("loose")  # pylint: disable=protected-access
        texts = []
        for path in files:
            with open(path, encoding="utf-8") as handle:
                texts.append(handle.read())
        parsed = rules.parse_file("\n".join(texts))["rules"]
        _SHIPPED["files"] = files
        _SHIPPED["reference"] = {rule["name"]: rule for rule in parsed}
        _SHIPPED["order"] = [rule["name"] for rule in parsed]
    return _SHIPPED


def _shipped() -> dict:
    _shipped_reference()
    if "real" not in _SHIPPED:
        from antismash.detection import hmm_detection
        from antismash.common.hmm_rule_parser import cluster_prediction
        names = set(hmm_detection.DYNAMIC_PROFILES) | {sig.name for sig in hmm_detection.get_signature_profiles()}
        try:
            real_rules = cluster_prediction.create_rules(_SHIPPED["files"], names, set(hmm_detection.CATEGORIES))
        except Exception as err:  # pylint: disable=broad-except
            raise Violation("shipped_rules_rejected", {"exception": type(err).__name__, "message": str(err)[:300]}) from err
        _SHIPPED["real"] = {rule.name: rule for rule in real_rules}
    return _SHIPPED


def check_shipped(spec: dict) -> dict:
    from antismash.common.hmm_rule_parser.structures import ProfileHit
    shipped = _shipped()
    name = spec["rule"]
    if name not in shipped["real"]:
        raise Violation("shipped_rule_missing", {"rule": name})
    rule = shipped["real"][name]
    ref = shipped["reference"][name]
    if rule.cutoff != ref["cutoff_kb"] * 1000 or rule.neighbourhood != ref["neighbourhood_kb"] * 1000 \
            or rule.category != ref["category"]:
        raise Violation("shipped_fields", {"rule": name})
    closure = set(ref["superiors"])
    frontier = list(ref["superiors"])
    while frontier:
        parent = frontier.pop()
        for grand in shipped["reference"][parent]["superiors"]:
            if grand not in closure:
                closure.add(grand)
                frontier.append(grand)
    if list(rule.superiors) != sorted(closure):
        raise Violation("shipped_superiors", {"rule": name, "got": rule.superiors, "want": sorted(closure)})
    genes = ["g0", "g1", "g2"]
    features = spec.get("_features")
    if not _FEATURES.get("g2"):
        _FEATURES.setdefault("g0", make_cds({"parts": [[0, 9]], "strand": 1}, "g0"))
        _FEATURES.setdefault("g1", make_cds({"parts": [[12, 21]], "strand": -1}, "g1"))
        _FEATURES["g2"] = make_cds({"parts": [[30, 39]], "strand": 1}, "g2")
    features = {gene: _FEATURES[gene] for gene in genes}
    hits = spec["hits"]
    results = {gene: [ProfileHit(gene, p, float(s), 1e-9) for p, s in sorted(found.items())]
               for gene, found in hits.items() if found}
    world = rules.World(hits, {gene: set(genes) for gene in genes})
    saved = rule.cutoff
    rule.cutoff = 10 ** 6
    try:
        for gene in genes:
            with code_under_test("shipped_total"):
                got = rule.detect(gene, features, results, circular_origin=0)
            want = rules.evaluate(ref["conditions"], gene, world)
            if bool(got.met) != want or set(got.matches) != rules.reasons(ref["conditions"], gene, world):
                raise Violation("shipped_meaning", {"rule": name, "gene": gene, "hits": hits, "got": got.met,
                                                    "want": want})
    finally:
        rule.cutoff = saved
    return {"nontrivial": len(rules.operator_kinds(ref["conditions"])) >= 2, "classes": []}


def check_corrupted(spec: dict) -> dict:
    """ a single-token corruption of a well-formed file: whatever the real parser ACCEPTS must still be read the way the
        documented grammar reads it (reference parser accepts it too and gives the same rules); rejecting is always fine """
    try:
        real = _parse_real(spec)
    except Violation:
        raise
    except Exception:  # pylint: disable=broad-except
        return {"nontrivial": True, "classes": [f"{spec['mutation']}_rejected"]}
    try:
        reference = rules.parse_file("\n".join(spec["files"]))
    except (rules.RefSyntaxError, IndexError, ValueError, KeyError) as err:
        raise Violation("corrupted_accepted_outside_grammar", {"mutation": spec["mutation"], "files": spec["files"],
                                                               "reference_error": str(err)[:200],
                                                               "rules": [str(rule) for rule in real]}) from err
    if [rule.name for rule in real] != [rule["name"] for rule in reference["rules"]]:
        raise Violation("corrupted_rule_names", {"files": spec["files"], "got": [rule.name for rule in real],
                                                 "want": [rule["name"] for rule in reference["rules"]]})
    closures: dict = {}
    for rule, ref in zip(real, reference["rules"]):
        closure = set(ref["superiors"])
        for parent in ref["superiors"]:
            closure |= closures.get(parent, set())
        closures[ref["name"]] = closure
        got = (rule.category, rule.cutoff, rule.neighbourhood, list(rule.superiors))
        want = (ref["category"], ref["cutoff_kb"] * 1000, ref["neighbourhood_kb"] * 1000, sorted(closure))
        if got != want:
            raise Violation("corrupted_fields", {"files": spec["files"], "rule": rule.name, "got": list(got), "want": list(want)})
        if not set(rules.profiles_of(ref["conditions"])) <= set(spec["profiles"]):
            raise Violation("corrupted_unknown_profile_accepted", {"files": spec["files"], "rule": rule.name})
        if not rules.has_positive(ref["conditions"]):
            raise Violation("corrupted_negative_only_accepted", {"files": spec["files"], "rule": rule.name})
        saved = rule.cutoff
        rule.cutoff = 10 ** 6
        _compare_meaning(rule, ref["conditions"], spec["sample_seed"], "corrupted_conditions")
        rule.cutoff = saved
    return {"nontrivial": True, "classes": [f"{spec['mutation']}_still_accepted"]}


SUBCHECKS = {"corrupted": check_corrupted, "wellformed": check_wellformed, "scaling": check_ruleset_scaling, "illformed": check_illformed,
             "shipped": check_shipped}


def _sig_unknown_profile_in_extenders(sub, spec, clause, detail) -> bool:
    """ the only identifiers unknown to the signature set occur in an EXTENDERS section, and the file was accepted """
    return (sub == "illformed" and clause == "illformed_accepted"
            and spec.get("class") in ("unknown_profile_in_extenders", "unknown_profile_in_extenders_cds"))


SIGNATURES: dict = {"unknown_profile_in_extenders": _sig_unknown_profile_in_extenders}


# --------------------------------------------------------------------------- generators

@st.composite
def rule_files(draw, force_unit: bool = False) -> dict:
    profiles = draw(st.lists(st.sampled_from(PROFILE_POOL), min_size=3, max_size=6, unique=True))
    categories = draw(st.lists(st.sampled_from(CATEGORIES), min_size=1, max_size=3, unique=True))
    hierarchy = draw(st.integers(0, 4)) == 0       # many rules that nearly always name superiors (diamonds, chains)
    names = draw(st.lists(st.sampled_from(RULE_NAMES), min_size=5 if hierarchy else 1, max_size=8 if hierarchy else 5,
                          unique=True))
    alias_pool = list(ALIAS_NAMES)
    chunks: list = []          # token lists, one per DEFINE / RULE block
    for index, name in enumerate(names):
        tree = draw(expression(profiles, draw(st.integers(0, 3))))
        if not rules.has_positive(tree):
            taken = {rules.canon(sub) for sub in tree[1]} if tree[0] == "and" else {rules.canon(_operand(tree, "and"))}
            extra = next(["id", p] for p in profiles if rules.canon(["id", p]) not in taken)
            tree = ["and", (tree[1] if tree[0] == "and" else [_operand(tree, "and")]) + [extra]]
        condition_tokens = _tokens_of(rules.render(tree))
        defines: list = []
        for _ in range(draw(st.integers(0, 2))):
            if not alias_pool or len(condition_tokens) < 2:
                break
            start = draw(st.integers(0, len(condition_tokens) - 1))
            end = draw(st.integers(start + 1, min(len(condition_tokens), start + 6)))
            alias = alias_pool.pop(0)
            defines.append(["DEFINE", alias, "AS"] + condition_tokens[start:end])
            condition_tokens = condition_tokens[:start] + [alias] + condition_tokens[end:]
        tokens = ["RULE", name, "CATEGORY", draw(st.sampled_from(categories))]
        if draw(st.booleans()):
            tokens += ["DESCRIPTION"] + draw(st.lists(st.sampled_from(WORDS), min_size=1, max_size=4))
        for _ in range(draw(st.integers(0, 2))):
            tokens += ["EXAMPLE", "NCBI", "AB1234", ".", str(draw(st.integers(1, 3))),
                       f"{draw(st.integers(0, 500))}-{draw(st.integers(500, 9000))}"]
            tokens += draw(st.lists(st.sampled_from(WORDS), max_size=2))
        if draw(st.integers(0, 3)) == 0:
            related = draw(st.lists(st.sampled_from(profiles), min_size=1, max_size=3, unique=True))
            tokens += ["RELATED"] + list(itertools.chain.from_iterable((r, ",") for r in related))[:-1]
        if index and (draw(st.integers(0, 1)) or (hierarchy and index > 1)):
            pool = names[max(0, index - 3):index] if hierarchy else names[:index]
            superiors = draw(st.lists(st.sampled_from(pool), min_size=1, max_size=3, unique=True))
            tokens += ["SUPERIORS"] + list(itertools.chain.from_iterable((s, ",") for s in superiors))[:-1]
        tokens += ["CUTOFF", str(draw(st.sampled_from([0, 1, 5, 20, 45, 7]))),
                   "NEIGHBOURHOOD", str(draw(st.sampled_from([0, 1, 10, 20, 33])))]
        tokens += ["CONDITIONS"] + condition_tokens
        extender = draw(st.integers(0, 5))
        if extender == 0:
            tokens += ["EXTENDERS", draw(st.sampled_from(profiles))]
        elif extender == 1:
            one, two = draw(st.lists(st.sampled_from(profiles), min_size=2, max_size=2, unique=True))
            joiner = draw(st.sampled_from(["and", "or"]))
            negate = ["not"] if draw(st.integers(0, 3)) == 0 else []
            tokens += ["EXTENDERS", "cds", "(", one, joiner] + negate + [two, ")"]
        chunks.extend(defines)
        chunks.append(tokens)
    file_count = draw(st.integers(1, min(3, len(chunks))))
    cuts = sorted(draw(st.lists(st.integers(1, len(chunks) - 1), min_size=file_count - 1, max_size=file_count - 1,
                                unique=True))) if len(chunks) > 1 and file_count > 1 else []
    bounds = [0] + cuts + [len(chunks)]
    # a file must contain at least one RULE or DEFINE (always true) and cannot be empty
    seps = draw(st.lists(st.integers(0, 10), min_size=5, max_size=40))
    files = []
    for lo, hi in zip(bounds, bounds[1:]):
        tokens = list(itertools.chain.from_iterable(chunks[lo:hi]))
        files.append(_join(tokens, seps))
    multipliers = [1.0, 1.0] if force_unit else draw(st.sampled_from(MULTIPLIERS))
    return {"files": files, "profiles": profiles, "categories": categories, "multipliers": multipliers,
            "mode": draw(st.sampled_from(["create_rules", "chained"])), "sample_seed": draw(st.integers(0, 1000))}


@st.composite
def corrupted_files(draw) -> dict:
    base = draw(rule_files(force_unit=True))
    tokens = rules.tokenize("\n".join(base["files"]))
    names = []
    for _ in range(draw(st.sampled_from([1, 1, 1, 2, 3]))):      # mostly one corruption, sometimes two or three
        if not tokens:
            break
        index = draw(st.integers(0, len(tokens) - 1))
        mutation = draw(st.sampled_from(["delete", "duplicate", "swap", "replace", "insert_paren", "insert_op"]))
        if mutation == "delete":
            tokens = tokens[:index] + tokens[index + 1:]
        elif mutation == "duplicate":
            tokens = tokens[:index + 1] + tokens[index:]
        elif mutation == "swap" and index + 1 < len(tokens):
            tokens[index], tokens[index + 1] = tokens[index + 1], tokens[index]
        elif mutation == "replace":
            tokens[index] = draw(st.sampled_from(tokens + ["and", "or", "not", "(", ")", ",", "cds", "minimum", "[", "]"]))
        elif mutation == "insert_paren":
            tokens.insert(index, draw(st.sampled_from(["(", ")"])))
        else:
            tokens.insert(index, draw(st.sampled_from(["and", "or", "not"])))
        names.append(mutation)
    mutation = names[0] if len(names) == 1 else f"{len(names)}_corruptions"
    if not tokens:
        tokens = ["RULE"]
    text = _join(tokens, draw(st.lists(st.integers(0, 4), min_size=3, max_size=10)))
    return {"files": [text], "profiles": base["profiles"], "categories": base["categories"], "multipliers": [1.0, 1.0],
            "mode": "chained", "sample_seed": base["sample_seed"], "mutation": mutation}


def _simple_rule(name: str, category: str, conditions: str, extra: str = "") -> str:
    return f"RULE {name} CATEGORY {category} {extra} CUTOFF 10 NEIGHBOURHOOD 5 CONDITIONS {conditions} "


ILLFORMED_KINDS = ['unknown_profile', 'unknown_category', 'duplicate_rule', 'duplicate_alias', 'alias_named_profile', 'alias_named_rule', 'alias_named_category', 'repeated_and', 'repeated_or', 'repeated_group', 'repeated_minimum', 'repeated_superior', 'missing_category', 'missing_cutoff', 'missing_neighbourhood', 'missing_conditions', 'paren_removed', 'paren_added', 'only_negated', 'only_negated_and', 'only_negated_group', 'superior_undefined', 'superior_later', 'reserved_cluster', 'reserved_score', 'cds_single', 'generated_unknown_profile', 'generated_paren', 'generated_duplicate_rule', 'unknown_profile_in_cds', 'unknown_profile_in_minimum', 'unknown_profile_in_minscore', 'unknown_profile_in_extenders', 'unknown_profile_in_extenders_cds', 'empty_text', 'alias_without_value', 'not_at_end', 'trailing_operator', 'minimum_zero', 'unknown_profile_via_alias', 'unknown_profile_via_alias_group', 'unknown_profile_via_nested_alias', 'unknown_profile_via_alias_other_file', 'alias_uses_itself', 'alias_uses_itself_in_list', 'aliases_use_each_other', 'aliases_use_each_other_across_files', 'only_negated_with_extenders', 'repeated_minimum_reordered', 'repeated_minimum_reordered_via_alias', 'repeated_cds_reordered']


@st.composite
def illformed_files(draw, kind: str) -> dict:
    base = draw(rule_files(force_unit=True))
    profiles = base["profiles"]
    category = base["categories"][0]
    a, b, c = profiles[0], profiles[1], profiles[2]
    good = _simple_rule("goodrule", category, f"{a} and {b}")
    files = None
    if kind == "unknown_profile":
        files = [good + _simple_rule("second", category, f"{a} or zzUnknownProfile")]
    elif kind == "unknown_profile_in_cds":
        files = [good + _simple_rule("second", category, f"cds({a} and zzUnknownProfile)")]
    elif kind == "unknown_profile_in_minimum":
        files = [good + _simple_rule("second", category, f"minimum(2, [{a}, zzUnknownProfile])")]
    elif kind == "unknown_profile_in_minscore":
        files = [good + _simple_rule("second", category, f"{a} and minscore(zzUnknownProfile, 20)")]
    elif kind == "unknown_profile_in_extenders":
        files = [good + _simple_rule("second", category, a) + " EXTENDERS zzUnknownProfile\n"]
    elif kind == "unknown_profile_in_extenders_cds":
        files = [good + _simple_rule("second", category, a) + f" EXTENDERS cds({a} and zzUnknownProfile)\n"]
    elif kind == "empty_text":
        files = ["# only a comment\n"]
    elif kind == "alias_without_value":
        files = ["DEFINE nothing AS\n" + good]
    elif kind == "not_at_end":
        files = [_simple_rule("second", category, f"{a} and not")]
    elif kind == "trailing_operator":
        files = [_simple_rule("second", category, f"{a} or")]
    elif kind == "minimum_zero":
        files = [_simple_rule("second", category, f"minimum(0, [{a}, {b}])")]
    elif kind == "unknown_profile_via_alias":
        files = ["DEFINE spooky AS zzUnknownProfile\n" + good + _simple_rule("second", category, f"{a} and spooky")]
    elif kind == "unknown_profile_via_alias_group":
        files = [good + f"DEFINE spooky AS ({b} or zzUnknownProfile)\n" + _simple_rule("second", category, f"{a} and spooky")]
    elif kind == "unknown_profile_via_nested_alias":
        files = ["DEFINE inner AS zzUnknownProfile\nDEFINE outer AS cds(" + f"{a} and inner)\n"
                 + _simple_rule("second", category, f"outer or {b}")]
    elif kind == "alias_uses_itself":
        files = [f"DEFINE loop AS {a} or loop\n" + good + _simple_rule("second", category, f"{b} and loop")]
    elif kind == "alias_uses_itself_in_list":
        files = [f"DEFINE loop AS {a}, loop,\n" + good + _simple_rule("second", category, f"minimum(2, [loop {b}])")]
    elif kind == "aliases_use_each_other":
        files = [f"DEFINE ping AS {a} or pong\nDEFINE pong AS {b} or ping\n" + good
                 + _simple_rule("second", category, f"{c} and ping")]
    elif kind == "aliases_use_each_other_across_files":
        files = [f"DEFINE ping AS {a} or pong\n" + good, f"DEFINE pong AS {b} or ping\n"
                 + _simple_rule("second", category, f"{c} and pong")]
    elif kind == "unknown_profile_via_alias_other_file":
        files = ["DEFINE spooky AS zzUnknownProfile\n" + good, _simple_rule("second", category, f"{a} or spooky")]
    elif kind == "unknown_category":
        files = [_simple_rule("second", "zzNoSuchCategory", a)]
    elif kind == "duplicate_rule":
        files = [good, _simple_rule("goodrule", category, c)]
    elif kind == "duplicate_alias":
        files = [f"DEFINE dup AS {a}\nDEFINE dup AS {b}\n" + _simple_rule("second", category, "dup")]
    elif kind == "alias_named_profile":
        files = [f"DEFINE {a} AS {b}\n" + _simple_rule("second", category, a)]
    elif kind == "alias_named_rule":
        files = [good + f"DEFINE goodrule AS {b}\n" + _simple_rule("second", category, "goodrule")]
    elif kind == "alias_named_category":
        files = [f"DEFINE {category} AS {b}\n" + _simple_rule("second", category, category)]
    elif kind == "repeated_and":
        files = [_simple_rule("second", category, f"{a} and {b} and {a}")]
    elif kind == "repeated_or":
        files = [_simple_rule("second", category, f"{a} or {b} or {a}")]
    elif kind == "repeated_group":
        files = [_simple_rule("second", category, f"({a} and {b}) or {c} or ({a} and {b})")]
    elif kind == "repeated_minimum":
        files = [_simple_rule("second", category, f"minimum(2, [{a}, {b}, {a}])")]
    elif kind == "repeated_superior":
        files = [good + _simple_rule("second", category, c, "SUPERIORS goodrule, goodrule")]
    elif kind == "missing_category":
        files = [f"RULE second CUTOFF 10 NEIGHBOURHOOD 5 CONDITIONS {a}"]
    elif kind == "missing_cutoff":
        files = [f"RULE second CATEGORY {category} NEIGHBOURHOOD 5 CONDITIONS {a}"]
    elif kind == "missing_neighbourhood":
        files = [f"RULE second CATEGORY {category} CUTOFF 10 CONDITIONS {a}"]
    elif kind == "missing_conditions":
        files = [good + f"RULE second CATEGORY {category} CUTOFF 10 NEIGHBOURHOOD 5\n" + _simple_rule("third", category, b)]
    elif kind == "paren_removed":
        files = [_simple_rule("second", category, f"({a} or {b} and {c}")]
    elif kind == "paren_added":
        files = [_simple_rule("second", category, f"({a} or {b})) and {c}")]
    elif kind == "only_negated":
        files = [_simple_rule("second", category, f"not {a}")]
    elif kind == "only_negated_and":
        files = [_simple_rule("second", category, f"not {a} and not {b}")]
    elif kind == "only_negated_group":
        files = [_simple_rule("second", category, f"not ({a} or {b})")]
    elif kind == "only_negated_with_extenders":
        body = draw(st.sampled_from([f"not {a}", f"not {a} and not {c}", f"not ({a} or {c})", f"not cds({a} and {c})",
                                     f"not minimum(2, [{a}, {c}])", f"not minscore({a}, 20)"]))
        extenders = draw(st.sampled_from([b, f"cds({b} and {c})", f"cds({b} or {a})"]))
        files = [good + _simple_rule("second", category, body) + f" EXTENDERS {extenders}\n"]
    elif kind == "repeated_minimum_reordered":
        joiner = draw(st.sampled_from(["or", "and"]))
        negate = draw(st.sampled_from(["", "", "not "]))
        files = [_simple_rule("second", category,
                              f"{c} {joiner} {negate}minimum(2, [{a}, {b}]) {joiner} {negate}minimum(2, [{b}, {a}])")]
    elif kind == "repeated_minimum_reordered_via_alias":
        files = [f"DEFINE twice AS minimum(2, [{b}, {a}])\n" + good,
                 _simple_rule("second", category, f"minimum(2, [{a}, {b}]) or twice")]
    elif kind == "repeated_cds_reordered":
        files = [_simple_rule("second", category, f"cds({a} and {b}) or cds({a} and {b}) or {c}")]
    elif kind == "superior_undefined":
        files = [_simple_rule("second", category, a, "SUPERIORS nosuchrule")]
    elif kind == "superior_later":
        files = [_simple_rule("second", category, a, "SUPERIORS later") + _simple_rule("later", category, b)]
    elif kind == "reserved_cluster":
        files = [_simple_rule("second", category, f"{a} and cluster")]
    elif kind == "reserved_score":
        files = [_simple_rule("second", category, f"{a} and score")]
    elif kind == "cds_single":
        files = [_simple_rule("second", category, f"cds({a})")]
    elif kind == "generated_unknown_profile":
        # any generated file, with one used profile removed from the known signatures
        reference = rules.parse_file("\n".join(base["files"]))
        used = sorted(set().union(*[rules.profiles_of(rule["conditions"]) for rule in reference["rules"]]))
        victim = draw(st.sampled_from(used))
        base["profiles"] = [p for p in base["profiles"] if p != victim]
        files = base["files"]
    elif kind == "generated_paren":
        # any generated file with one parenthesis token deleted (inside CONDITIONS/EXTENDERS)
        text = "\n".join(base["files"])
        positions = [i for i, ch in enumerate(text) if ch in "()" and "#" not in text[text.rfind("\n", 0, i) + 1:i]]
        if not positions:
            files = [_simple_rule("second", category, f"({a} or {b}")]
        else:
            victim = draw(st.sampled_from(positions))
            files = [text[:victim] + " " + text[victim + 1:]]
    elif kind == "generated_duplicate_rule":
        reference = rules.parse_file("\n".join(base["files"]))
        files = base["files"] + [_simple_rule(reference["rules"][0]["name"], category, a)]
    assert files is not None
    if kind.startswith("reserved"):
        base["profiles"] = base["profiles"] + ["cluster", "score"]
    return {"files": files, "profiles": base["profiles"], "categories": base["categories"],
            "multipliers": [1.0, 1.0], "mode": draw(st.sampled_from(["create_rules", "chained"])), "class": kind}


def shipped_cases(seed: int, worlds_per_rule: int):
    def cases():
        shipped = _shipped_reference()
        rng = random.Random(seed)
        for name in shipped["order"]:
            ref = shipped["reference"][name]
            profiles = sorted(rules.profiles_of(ref["conditions"]))
            thresholds = _thresholds(ref["conditions"])
            for _ in range(worlds_per_rule):
                hits = {}
                density = rng.choice([0.1, 0.3, 0.6])
                for gene in ("g0", "g1", "g2"):
                    hits[gene] = {}
                    for profile in profiles:
                        if rng.random() < density:
                            score = 100
                            if thresholds:
                                score = rng.choice([min(thresholds) - 1, max(thresholds), max(thresholds) + 1, 0])
                            hits[gene][profile] = score
                yield {"rule": name, "hits": hits}
    return cases


def run(ctx) -> None:
    ctx.hyp("wellformed", rule_files(), max_examples=ctx.pick(700, 20000), shards=ctx.pick(8, 16))
    ctx.hyp("corrupted", corrupted_files(), max_examples=ctx.pick(1200, 40000), shards=ctx.pick(8, 16))
    ctx.hyp("scaling", rule_files(), max_examples=ctx.pick(100, 2000), shards=ctx.pick(4, 16))
    for kind in ILLFORMED_KINDS:
        generated = kind.startswith("generated")
        ctx.hyp("illformed", illformed_files(kind), max_examples=ctx.pick(40 if generated else 8, 2000 if generated else 48),
                shards=ctx.pick(1, 16))
    ctx.enum("shipped", shipped_cases(ctx.seed, ctx.pick(60, 1000)), shards=ctx.pick(8, 16), exhaustive=False,
             distinct=False)
