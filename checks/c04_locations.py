""" C04 - location algebra agrees with the set-of-bases model on line and ring """

from __future__ import annotations

import itertools

from hypothesis import strategies as st

from vlib import gen, ring
from vlib.build import make_record, to_loc
from vlib.runner import Violation, code_under_test

PROPERTY_ID = "C04"
LEVEL = "exploration"
RULE = ("Enumeration: every arc (start, length, strand; simple, origin-spanning, whole record) on rings "
        "of length 1..Lmax, all ordered pairs (overlap/contains/distance with and without wrap point), all "
        "triples for connect, all offsets in (-2L..2L), all extension distances 0..L+1. Random: Hypothesis "
        "locations (simple, multi-exon, origin-spanning multi-exon, either strand) on records up to 3000 bases "
        "with boundary-biased coordinates, plus short locations on records of 10^4..2^24 bases (pair functions and offsets). A case is non-trivial when a boundary coincides with 0 or L, an "
        "input spans the origin, two inputs touch (end == start) or a gap is within 1 of L/2; distinct = "
        "sha1 of the canonical spec (enumerated cases are distinct by construction).")
ASSUMPTIONS = [
    "Biopython's FeatureLocation/CompoundLocation attribute access (.parts/.start/.end/.strand) is the trusted base",
    "the set-of-bases model in vlib/ring.py is the meaning of a location",
    "connect on a ring is judged by a contract (covers, one arc, <= line hull, minimal when < L/2), not one exact arc",
    "extend_location is judged on span-like inputs, the only shape its callers pass",
]


def _loc(spec):
    return to_loc(spec)


def _touches_boundary(loc: dict, length: int) -> bool:
    return any(s == 0 or e == length for s, e in loc["parts"])


def _nontrivial_locs(locs: list, length: int) -> bool:
    if any(gen.is_span(loc) for loc in locs):
        return True
    if any(_touches_boundary(loc, length) for loc in locs):
        return True
    ends = {p[1] for loc in locs for p in loc["parts"]}
    starts = {p[0] for loc in locs for p in loc["parts"]}
    if ends & starts:
        return True
    half = length // 2
    for a, b in itertools.combinations(locs, 2):
        gap = ring.dist(a, b, None) if not (gen.is_span(a) or gen.is_span(b)) else None
        if gap is not None and abs(gap - half) <= 1:
            return True
    return False


# --------------------------------------------------------------------------- pair functions

def check_pair(spec: dict) -> dict:
    from antismash.common.secmet.locations import (
        get_distance_between_locations, location_contains_other, locations_overlap)
    length = spec["L"]
    a, b = spec["a"], spec["b"]
    loc_a, loc_b = _loc(a), _loc(b)
    with code_under_test("overlap_total"):
        got = locations_overlap(loc_a, loc_b)
        got_rev = locations_overlap(loc_b, loc_a)
    want = ring.overlap(a, b)
    if bool(got) != want or bool(got_rev) != want:
        raise Violation("overlap", {"got": got, "got_reversed": got_rev, "model": want})
    with code_under_test("contains_total"):
        got = location_contains_other(loc_a, loc_b)
    want = ring.contains(a, b)
    if bool(got) != want:
        raise Violation("contains", {"got": got, "model": want})
    # the same two questions asked through the other public forms: the location's own method and a feature
    with code_under_test("contains_total"):
        by_method = loc_a.contains(loc_b)
    if bool(by_method) != want:
        raise Violation("contains_method", {"got": by_method, "model": want})
    with code_under_test("contains_total"):
        by_operator = loc_b in loc_a
    if bool(by_operator) != want:
        raise Violation("contains_operator", {"got": by_operator, "model": want})
    from antismash.common.secmet.features import Feature
    try:
        feature_a, feature_b = Feature(loc_a, "misc_feature"), Feature(loc_b, "misc_feature")
    except ValueError:      # a location no feature may have
        feature_a = feature_b = None
    if feature_a is not None:
        with code_under_test("contains_total"):
            by_feature = feature_b.is_contained_by(loc_a)
            by_features = feature_b.is_contained_by(feature_a)
        if bool(by_feature) != want or bool(by_features) != want:
            raise Violation("contains_feature", {"got": [by_feature, by_features], "model": want})
        with code_under_test("overlap_total"):
            over = feature_a.overlaps_with(loc_b)
            over_rev = feature_b.overlaps_with(feature_a)
        if bool(over) != ring.overlap(a, b) or bool(over_rev) != ring.overlap(a, b):
            raise Violation("overlap_feature", {"got": [over, over_rev], "model": ring.overlap(a, b)})
    spanning = gen.is_span(a) or gen.is_span(b)
    for wrap in ([None, length] if not spanning else [length]):
        with code_under_test("distance_total"):
            got = get_distance_between_locations(loc_a, loc_b, wrap)
            got_rev = get_distance_between_locations(loc_b, loc_a, wrap)
        want = ring.dist(a, b, wrap)
        if got != want or got_rev != want:
            raise Violation("distance", {"wrap": wrap, "got": got, "got_reversed": got_rev, "model": want})
        if (got == 0) != (ring.overlap(a, b) or want == 0):
            raise Violation("distance_zero", {"wrap": wrap, "got": got})
    return {"nontrivial": _nontrivial_locs([a, b], length),
            "classes": [f"a_{a.get('kind', '?')}", f"b_{b.get('kind', '?')}"]}


# --------------------------------------------------------------------------- connect

def _connect_contract(locs: list, result: dict, length: int, wrap: bool, label: str) -> None:
    union = set()
    for loc in locs:
        union |= ring.bases(loc)
    any_span = any(gen.is_span(loc) for loc in locs)
    problem = ring.wellformed(result, length, span=True)
    if problem:
        raise Violation(f"{label}_wellformed", {"result": result, "problem": problem})
    got = ring.bases(result)
    if not union <= got:
        raise Violation(f"{label}_covers", {"result": result, "missing": sorted(union - got)[:10]})
    lo, hi = ring.hull_line(union)
    if not wrap:
        if result["parts"] != [[lo, hi]]:
            raise Violation(f"{label}_line_hull", {"result": result, "hull": [lo, hi]})
        return
    if not ring.is_arc(got, length):
        raise Violation(f"{label}_single_arc", {"result": result})
    if not any_span and len(got) > hi - lo:
        raise Violation(f"{label}_longer_than_hull", {"result": result, "hull": [lo, hi]})
    arcs = ring.min_arcs(union, length)
    arc_len = arcs[0][1]
    if 2 * arc_len < length:
        expected = ring.arc_bases(arcs[0][0], arc_len, length)
        if got != expected:
            raise Violation(f"{label}_not_minimal", {"result": result, "minimal_arc": list(arcs[0])})


def check_connect(spec: dict) -> dict:
    from antismash.common.secmet.locations import connect_locations
    length = spec["L"]
    locs = spec["locs"]
    wrap = spec["wrap"]
    wrap_point = length if wrap else None
    any_span = any(gen.is_span(loc) for loc in locs)
    if any_span and not wrap:
        try:
            result = connect_locations([_loc(loc) for loc in locs], wrap_point)
        except ValueError:
            return {"nontrivial": True, "classes": ["span_without_wrap_rejected"]}
        except Exception as err:  # pylint: disable=broad-except
            raise Violation("connect_span_no_wrap", {"exception": type(err).__name__, "message": str(err)[:200]})
        raise Violation("connect_span_no_wrap", {"returned": ring.from_bio(result)})
    with code_under_test("connect_total"):
        result = ring.from_bio(connect_locations([_loc(loc) for loc in locs], wrap_point))
    _connect_contract(locs, result, length, wrap, "connect")
    # order independence
    for perm in (list(reversed(locs)), locs[1:] + locs[:1]):
        if perm == locs:
            continue
        with code_under_test("connect_total"):
            other = ring.from_bio(connect_locations([_loc(loc) for loc in perm], wrap_point))
        if ring.bases(other) != ring.bases(result):
            raise Violation("connect_order", {"first": result, "permuted": other})
    # applying it twice changes nothing
    with code_under_test("connect_idempotent"):
        again = ring.from_bio(connect_locations([_loc(result)], wrap_point))
    if ring.bases(again) != ring.bases(result):
        raise Violation("connect_idempotent", {"first": result, "again": again})
    return {"nontrivial": _nontrivial_locs(locs, length),
            "classes": ["wrap" if wrap else "line", "any_span" if any_span else "no_span",
                        f"result_parts_{len(result['parts'])}"]}


# --------------------------------------------------------------------------- extend

def check_extend(spec: dict) -> dict:
    length = spec["L"]
    circular = spec["circular"]
    loc = spec["loc"]
    distance = spec["d"]
    record = make_record(length, circular)
    with code_under_test("extend_total"):
        result = ring.from_bio(record.extend_location(_loc(loc), distance))
    want = ring.extend(ring.bases(loc), distance, length, circular)
    problem = ring.wellformed(result, length, span=False)
    if problem:
        raise Violation("extend_wellformed", {"result": result, "problem": problem})
    got = ring.bases(result)
    if got != want:
        raise Violation("extend_bases", {"result": result, "missing": sorted(want - got)[:8],
                                         "extra": sorted(got - want)[:8]})
    if len(result["parts"]) > 2:
        raise Violation("extend_wellformed", {"result": result, "problem": "more than two parts"})
    if len(result["parts"]) == 2:
        starts_ends = sorted(result["parts"])
        if starts_ends[0][0] != 0 or starts_ends[1][1] != length:
            raise Violation("extend_wellformed", {"result": result, "problem": "two parts not meeting at the origin"})
    # extending twice == extending once by the sum, as sets (only while the result stays span-like)
    second = spec.get("d2")
    if second is not None and len(got) < length:
        with code_under_test("extend_total"):
            twice = ring.from_bio(record.extend_location(_loc(result), second))
            once = ring.from_bio(record.extend_location(_loc(loc), distance + second))
        if ring.bases(twice) != ring.bases(once):
            raise Violation("extend_additive", {"twice": twice, "once": once})
    return {"nontrivial": _nontrivial_locs([loc], length) or len(want) != len(ring.bases(loc)) + 2 * distance,
            "classes": ["circular" if circular else "linear", f"kind_{loc.get('kind')}",
                        "full" if len(want) == length else "partial"]}


# --------------------------------------------------------------------------- offset

def _transcript_order(loc: dict) -> list:
    """ the bases in the order Biopython's extract() visits them """
    out = []
    for start, end in loc["parts"]:
        chunk = list(range(start, end))
        if loc.get("strand") == -1:
            chunk.reverse()
        out.extend(chunk)
    return out


def check_offset(spec: dict) -> dict:
    from antismash.common.secmet.locations import offset_location
    length = spec["L"]
    loc = spec["loc"]
    offset = spec["k"]
    wrap = spec["wrap"]
    source = _loc(loc)
    with code_under_test("offset_total"):
        result_loc = offset_location(source, offset, wrap_point=length if wrap else None)
    result = ring.from_bio(result_loc)
    if ring.from_bio(source) != {"parts": loc["parts"], "strand": loc["strand"]}:
        raise Violation("offset_mutated_input", {"now": ring.from_bio(source)})
    if wrap:
        want = ring.rotate(ring.bases(loc), offset, length)
        problem = ring.wellformed(result, length)
    else:
        want = frozenset(b + offset for b in ring.bases(loc))
        problem = ring.wellformed(result, None)
    if problem:
        raise Violation("offset_wellformed", {"result": result, "problem": problem})
    if ring.bases(result) != want:
        raise Violation("offset_bases", {"result": result})
    if len(result_loc) != len(source):
        raise Violation("offset_length", {"result": result})
    if result["strand"] != loc["strand"]:
        raise Violation("offset_strand", {"result": result})
    # when every part can simply be translated without leaving [0, L], the result is exactly that translation,
    # part by part in the same order (which is what extraction of a shifted feature relies on)
    shifts = [offset] if not wrap else [offset % length, offset % length - length]
    for shift in shifts:
        if all(0 <= start + shift and end + shift <= length for start, end in loc["parts"]) and (
                len(ring.bases(loc)) < length or not wrap):
            expected_parts = [[start + shift, end + shift] for start, end in loc["parts"]]
            touching = any(a[1] == b[0] or b[1] == a[0] for a, b in zip(expected_parts, expected_parts[1:]))
            if not touching and result["parts"] != expected_parts:
                raise Violation("offset_order", {"result": result, "expected_parts": expected_parts})
            break
    return {"nontrivial": _nontrivial_locs([loc, result], length),
            "classes": ["wrap" if wrap else "line", f"kind_{loc.get('kind')}",
                        "result_span" if gen.is_span(result) else "result_plain"]}


# --------------------------------------------------------------------------- bridging / text / misc

def check_bridge(spec: dict) -> dict:
    from antismash.common.secmet.locations import location_bridges_origin, split_origin_bridging_location
    loc = spec["loc"]
    source = _loc(loc)
    want = gen.is_span(loc)
    with code_under_test("bridges_total"):
        got = location_bridges_origin(source)
    if bool(got) != want:
        raise Violation("bridges_origin", {"got": got, "constructed_spanning": want})
    # the same question through the location's own method and through a feature with that location
    # (wrap inside an exon or inside an intron alike)
    from antismash.common.secmet.features import Feature
    with code_under_test("bridges_total"):
        by_method = source.crosses_origin()
    if bool(by_method) != want:
        raise Violation("crosses_origin_method", {"got": by_method, "constructed_spanning": want})
    try:
        feature = Feature(source, "misc_feature")
    except ValueError:
        feature = None
    if feature is not None:
        with code_under_test("bridges_total"):
            by_feature = feature.crosses_origin()
        if bool(by_feature) != want:
            raise Violation("crosses_origin_feature", {"got": by_feature, "constructed_spanning": want})
    if want and not any(part[0] == 0 for part in loc["parts"]):
        classes_extra = ["origin_inside_an_intron"]
    else:
        classes_extra = []
    if want:
        with code_under_test("split_total"):
            lower, upper = split_origin_bridging_location(source)
        # parts after the origin are those that, in transcript-forward order, come after the wrap
        forward = list(loc["parts"]) if loc["strand"] != -1 else list(reversed(loc["parts"]))
        cut = next(i for i in range(1, len(forward)) if forward[i][0] < forward[i - 1][0])
        want_upper = sorted(map(tuple, forward[:cut]))
        want_lower = sorted(map(tuple, forward[cut:]))
        got_lower = sorted((int(p.start), int(p.end)) for p in lower)
        got_upper = sorted((int(p.start), int(p.end)) for p in upper)
        if got_lower != want_lower or got_upper != want_upper:
            raise Violation("split_parts", {"lower": got_lower, "upper": got_upper,
                                            "want_lower": want_lower, "want_upper": want_upper})
    return {"nontrivial": want or len(loc["parts"]) > 1, "classes": [f"kind_{loc.get('kind')}"] + classes_extra}


def _build_text_location(spec: dict):
    from Bio.SeqFeature import AfterPosition, BeforePosition, ExactPosition
    from antismash.common.secmet.locations import CompoundLocation, FeatureLocation
    parts = []
    for (start, end), (smod, emod) in zip(spec["parts"], spec["mods"]):
        spos = BeforePosition(start) if smod == "<" else ExactPosition(start)
        epos = AfterPosition(end) if emod == ">" else ExactPosition(end)
        parts.append(FeatureLocation(spos, epos, spec["strand"]))
    if len(parts) == 1:
        return parts[0]
    return CompoundLocation(parts, operator=spec["operator"])


def check_text(spec: dict) -> dict:
    from antismash.common.secmet.locations import location_from_string
    source = _build_text_location(spec)
    text = str(source)
    with code_under_test("text_total"):
        back = location_from_string(text)
    if str(back) != text:
        raise Violation("text_roundtrip", {"text": text, "reread": str(back)})
    if type(back).__name__ != type(source).__name__ or len(back.parts) != len(source.parts):
        raise Violation("text_roundtrip", {"text": text, "type": type(back).__name__})
    for one, two in zip(source.parts, back.parts):
        same = (int(one.start) == int(two.start) and int(one.end) == int(two.end)
                and type(one.start).__name__ == type(two.start).__name__
                and type(one.end).__name__ == type(two.end).__name__
                and (one.strand or None) == (two.strand or None))
        if not same:
            raise Violation("text_roundtrip", {"text": text, "part": str(two)})
    if len(source.parts) > 1 and back.operator != source.operator:
        raise Violation("text_roundtrip", {"text": text, "operator": back.operator})
    fuzzy = any(m != "" for pair in spec["mods"] for m in pair)
    return {"nontrivial": fuzzy or len(spec["parts"]) > 1 or spec["strand"] in (0, None),
            "classes": [f"strand_{spec['strand']}", "fuzzy" if fuzzy else "exact"]}


def check_misc(spec: dict) -> dict:
    from antismash.common.secmet.locations import (
        build_location_from_others, make_forwards, remove_redundant_exons)
    loc = spec["loc"]
    source = _loc(loc)
    with code_under_test("make_forwards_total"):
        forward = ring.from_bio(make_forwards(source))
    if ring.bases(forward) != ring.bases(loc):
        raise Violation("make_forwards_bases", {"result": forward})
    fwd_loc = make_forwards(source)
    if any(part.strand != 1 for part in fwd_loc.parts):
        raise Violation("make_forwards_strand", {"result": forward})
    if not gen.is_span(loc):
        starts = [p[0] for p in forward["parts"]]
        if starts != sorted(starts):
            raise Violation("make_forwards_order", {"result": forward})
    elif not gen.is_span({"parts": forward["parts"], "strand": 1}):
        raise Violation("make_forwards_order", {"result": forward, "problem": "no longer origin-spanning"})

    # redundant exons: add copies/sub-ranges of existing parts, they must vanish and nothing else
    extra = spec.get("redundant") or []
    if extra:
        parts = list(loc["parts"])
        for index, (lo_cut, hi_cut) in extra:
            base = loc["parts"][index % len(loc["parts"])]
            size = base[1] - base[0]
            lo = base[0] + min(lo_cut, size - 1)
            hi = max(lo + 1, base[1] - min(hi_cut, size - 1))
            if [lo, hi] == base:
                continue
            parts.append([lo, hi])
        with_red = {"parts": parts, "strand": loc["strand"]}
        if len(parts) > 1:
            with code_under_test("remove_redundant_total"):
                trimmed = ring.from_bio(remove_redundant_exons(_loc(with_red)))
            if ring.bases(trimmed) != ring.bases(with_red):
                raise Violation("remove_redundant_bases", {"input": with_red, "result": trimmed})
            for i, one in enumerate(trimmed["parts"]):
                for j, two in enumerate(trimmed["parts"]):
                    if i != j and two[0] <= one[0] and one[1] <= two[1]:
                        raise Violation("remove_redundant_left_nested", {"input": with_red, "result": trimmed})
            kept = [p for p in with_red["parts"] if p in trimmed["parts"]]
            if kept != trimmed["parts"] and sorted(kept) != sorted(trimmed["parts"]):
                raise Violation("remove_redundant_invented", {"input": with_red, "result": trimmed})

    # build_location_from_others over consecutive chunks of a forward, non-spanning location
    chunks = spec.get("chunks")
    if chunks and not gen.is_span(loc) and loc["strand"] == 1:
        pieces = []
        lo, hi = chunks["start"], chunks["start"]
        for size, gap in chunks["pieces"]:
            lo = hi + gap
            hi = lo + size
            pieces.append({"parts": [[lo, hi]], "strand": 1})
        with code_under_test("build_from_others_total"):
            built = ring.from_bio(build_location_from_others([_loc(p) for p in pieces]))
        union = set()
        for piece in pieces:
            union |= ring.bases(piece)
        if ring.bases(built) != union:
            raise Violation("build_from_others_bases", {"pieces": pieces, "result": built})
        for one, two in zip(built["parts"], built["parts"][1:]):
            if one[1] == two[0]:
                raise Violation("build_from_others_unmerged", {"pieces": pieces, "result": built})
        if ring.wellformed(built, None):
            raise Violation("build_from_others_wellformed", {"pieces": pieces, "result": built})
    return {"nontrivial": len(loc["parts"]) > 1 or bool(extra) or bool(chunks),
            "classes": [f"kind_{loc.get('kind')}"]}


SUBCHECKS = {
    "pair": check_pair,
    "connect": check_connect,
    "extend": check_extend,
    "offset": check_offset,
    "bridge": check_bridge,
    "text": check_text,
    "misc": check_misc,
    "pair_enum": check_pair,
    "connect_enum": check_connect,
    "extend_enum": check_extend,
    "offset_enum": check_offset,
}

SIGNATURES: dict = {}


# --------------------------------------------------------------------------- enumerations

def all_arcs(length: int, strands=(1,)):
    for strand in strands:
        for start in range(length):
            for size in range(1, length + 1):
                if start + size > length and size == length and start == 0:
                    continue
                loc = ring.arc_to_loc(start, size, length, strand)
                loc["kind"] = "span" if len(loc["parts"]) > 1 else "simple"
                yield loc


def enum_pairs(max_len: int):
    def cases():
        for length in range(1, max_len + 1):
            arcs = list(all_arcs(length))
            for a in arcs:
                for b in arcs:
                    yield {"L": length, "a": a, "b": b}
    return cases


def enum_connect(max_len_pairs: int, max_len_triples: int):
    def cases():
        for length in range(1, max_len_pairs + 1):
            arcs = list(all_arcs(length))
            for wrap in (True, False):
                for a in arcs:
                    yield {"L": length, "locs": [a], "wrap": wrap}
                    for b in arcs:
                        yield {"L": length, "locs": [a, b], "wrap": wrap}
        for length in range(2, max_len_triples + 1):
            arcs = list(all_arcs(length))
            for a in arcs:
                for b in arcs:
                    for c in arcs:
                        yield {"L": length, "locs": [a, b, c], "wrap": True}
    return cases


def enum_extend(max_len: int):
    def cases():
        for length in range(1, max_len + 1):
            for circular in (True, False):
                for strand in (1, -1):
                    for loc in all_arcs(length, (strand,)):
                        if gen.is_span(loc) and not circular:
                            continue
                        for distance in range(0, length + 2):
                            yield {"L": length, "circular": circular, "loc": loc, "d": distance}
    return cases


def enum_offset(max_len: int):
    def cases():
        for length in range(1, max_len + 1):
            for loc in all_arcs(length, (1, -1)):
                for offset in range(-2 * length + 1, 2 * length):
                    yield {"L": length, "loc": loc, "k": offset, "wrap": True}
                if not gen.is_span(loc):
                    start = loc["parts"][0][0]
                    for offset in range(-start, 2 * length):
                        yield {"L": length, "loc": loc, "k": offset, "wrap": False}
    return cases


# --------------------------------------------------------------------------- random strategies

@st.composite
def pair_specs(draw):
    length = draw(gen.lengths(1, 3000))
    a = draw(gen.any_location(length))
    anchors = tuple(x for p in a["parts"] for x in p)
    b = draw(st.one_of(gen.any_location(length), gen.arc(length, anchors=anchors)))
    return {"L": length, "a": a, "b": b}


@st.composite
def frameshift_pair_specs(draw):
    """ a location whose parts share bases with each other (a programmed frameshift: the next exon starts 1-2 bases
        before the previous one ends; or a short exon repeated inside a longer one), paired with its own hull, a hull
        one base wider or narrower on either side, one of its own parts, or another arc: still a set of bases, and
        'contains' is still decided part by part """
    length = draw(gen.lengths(12, 3000))
    count = draw(st.integers(2, 4))
    strand = draw(st.sampled_from([1, -1]))
    budget = max(count * 3, min(length, draw(st.sampled_from([12, 30, 90, length]))))
    start = draw(st.integers(0, length - min(budget, length)))
    parts = []
    pos = start
    for index in range(count):
        size = draw(st.integers(3, max(3, (budget // count))))
        end = min(length, pos + size)
        if end - pos < 1:
            break
        parts.append([pos, end])
        step = draw(st.sampled_from(["overlap1", "overlap2", "overlap1", "inside", "gap"]))
        if step == "inside" and end - pos >= 3:
            pos = pos + 1           # the next part starts inside this one (and may end inside it too)
        elif step == "gap":
            pos = end + draw(st.integers(0, 3))
        else:
            pos = max(pos + 1, end - (1 if step == "overlap1" else 2))
        if pos >= length:
            break
    # no two parts may end on the same base (Feature refuses exons sharing a stop codon)
    seen, kept = set(), []
    for part in parts:
        if part[1] not in seen:
            seen.add(part[1])
            kept.append(part)
    parts = kept
    inner = {"parts": gen._order_parts(parts, strand), "strand": strand, "kind": "multi"}  # pylint: disable=protected-access
    low, high = min(p[0] for p in parts), max(p[1] for p in parts)
    choice = draw(st.sampled_from(["hull", "hull", "wider", "narrow_left", "narrow_right", "part", "arc"]))
    if choice == "hull":
        outer_parts = [[low, high]]
    elif choice == "wider":
        outer_parts = [[max(0, low - 1), min(length, high + 1)]]
    elif choice == "narrow_left":
        outer_parts = [[min(low + 1, high - 1), high]]
    elif choice == "narrow_right":
        outer_parts = [[low, max(high - 1, low + 1)]]
    elif choice == "part":
        outer_parts = [list(draw(st.sampled_from(parts)))]
    else:
        outer_parts = None
    outer = draw(gen.arc(length, allow_span=False)) if outer_parts is None else \
        {"parts": outer_parts, "strand": draw(st.sampled_from([1, -1])), "kind": "simple"}
    if draw(st.booleans()):
        return {"L": length, "a": outer, "b": inner}
    return {"L": length, "a": inner, "b": outer}


@st.composite
def big_pair_specs(draw):
    """ short locations on very long records (interval arithmetic only, no base sets) """
    length = draw(st.sampled_from([10 ** 4, 10 ** 5 + 1, 10 ** 6, 10 ** 7 - 3, 2 ** 24]))
    a = draw(st.one_of(gen.arc(length, max_len=5000), gen.exon_location(length, max_total=5000)))
    anchors = tuple(x for p in a["parts"] for x in p) + (length // 2, length // 2 + a["parts"][0][0])
    b = draw(st.one_of(gen.arc(length, max_len=5000, anchors=anchors), gen.exon_location(length, max_total=5000)))
    return {"L": length, "a": a, "b": b}


@st.composite
def big_offset_specs(draw):
    length = draw(st.sampled_from([10 ** 4, 10 ** 5 + 1, 10 ** 6]))
    loc = draw(st.one_of(gen.arc(length, max_len=300), gen.exon_location(length, max_total=300)))
    offset = draw(gen.coord(-2 * length, 2 * length, anchors=(0, length, -length, length - loc["parts"][0][1],
                                                              -loc["parts"][0][0])))
    return {"L": length, "loc": loc, "k": offset, "wrap": True}


@st.composite
def connect_specs(draw):
    length = draw(gen.lengths(1, 3000))
    count = draw(st.integers(1, 6))
    wrap = draw(st.booleans())
    locs = [draw(gen.any_location(length, allow_span=wrap or draw(st.integers(0, 9)) == 0)) for _ in range(count)]
    return {"L": length, "locs": locs, "wrap": wrap}


@st.composite
def wrapped_connect_specs(draw):
    """ lists that have to be connected over the origin: 1-3 locations close to the end of the record and 1-3 close to its
        start (none crossing it), often nested in one another or sharing a start or an end, together shorter than half
        the ring; given in any order """
    length = draw(st.sampled_from([40, 100, 101, 1000, 3000]))
    reach = max(6, draw(st.sampled_from([length // 10, length // 5, length // 4])))

    def side(low: int, high: int) -> list:
        made: list = []
        for _ in range(draw(st.integers(1, 3))):
            if made and draw(st.integers(0, 2)):
                # relative to an earlier one: inside it, sharing its start, sharing its end, or around it
                s0, e0 = draw(st.sampled_from(made))
                kind = draw(st.sampled_from(["inside", "same_start", "same_end", "around"]))
                if kind == "inside" and e0 - s0 >= 3:
                    start = draw(st.integers(s0 + 1, e0 - 2))
                    end = draw(st.integers(start + 1, e0 - 1))
                elif kind == "same_start" and e0 - s0 >= 2:
                    start, end = s0, draw(st.integers(s0 + 1, e0 - 1))
                elif kind == "same_end" and e0 - s0 >= 2:
                    start, end = draw(st.integers(s0 + 1, e0 - 1)), e0
                else:
                    start, end = max(low, s0 - draw(st.integers(0, 2))), min(high, e0 + draw(st.integers(0, 2)))
            else:
                start = draw(st.integers(low, high - 1))
                end = draw(st.integers(start + 1, high))
            made.append((start, end))
        return made
    lower = side(0, reach)
    upper = side(length - reach, length)
    locs = [{"parts": [[start, end]], "strand": draw(st.sampled_from([1, -1, 1])), "kind": "simple"} for start, end in lower + upper]
    locs = draw(st.permutations(locs))
    return {"L": length, "locs": list(locs), "wrap": True}


@st.composite
def frameshift_span_connect_specs(draw):
    """ one location that crosses the origin and whose consecutive exons on either side of the origin may share 1-2 bases
        (a programmed frameshift next to the origin, either strand), connected alone or with one or two nearby arcs; the
        whole stays shorter than half the ring so that the minimal arc is the expected answer """
    length = draw(st.sampled_from([60, 100, 101, 1000, 3000]))
    reach = max(14, length // 5)
    strand = draw(st.sampled_from([1, -1]))

    def side(low: int, high: int, from_low_edge: bool) -> list:
        parts = []
        pos = low if from_low_edge or draw(st.booleans()) else draw(st.integers(low, low + 3))
        for _ in range(draw(st.integers(1, 3))):
            size = draw(st.integers(3, 7))
            end = pos + size
            if end > high:
                break
            parts.append([pos, end])
            step = draw(st.sampled_from(["overlap1", "overlap2", "gap", "touch"]))
            if step == "gap":
                pos = end + draw(st.integers(1, 3))
            elif step == "touch":
                pos = end
            else:
                pos = end - (1 if step == "overlap1" else 2)
        return parts
    lower = side(0 if draw(st.booleans()) else draw(st.integers(0, 2)), reach, False)
    upper = side(length - reach, length, False)
    if upper and draw(st.booleans()):
        shift = length - upper[-1][1]       # make the last exon before the origin end exactly on it
        upper = [[a + shift, b + shift] for a, b in upper]
    if not lower or not upper:
        lower, upper = lower or [[0, 5]], upper or [[length - 6, length]]
    main = {"parts": gen._order_parts(upper + lower, strand), "strand": strand, "kind": "span"}  # pylint: disable=protected-access
    locs = [main]
    for _ in range(draw(st.integers(0, 2))):
        if draw(st.booleans()):
            start = draw(st.integers(0, reach - 1))
            end = draw(st.integers(start + 1, reach))
        else:
            start = draw(st.integers(length - reach, length - 1))
            end = draw(st.integers(start + 1, length))
        locs.append({"parts": [[start, end]], "strand": draw(st.sampled_from([1, -1])), "kind": "simple"})
    return {"L": length, "locs": list(draw(st.permutations(locs))), "wrap": True}


@st.composite
def extend_specs(draw):
    length = draw(gen.lengths(1, 3000))
    circular = draw(st.booleans())
    loc = draw(gen.arc(length, allow_span=circular))
    distance = draw(gen.coord(0, length + 1))
    second = draw(st.one_of(st.none(), gen.coord(0, length + 1)))
    return {"L": length, "circular": circular, "loc": loc, "d": distance, "d2": second}


@st.composite
def offset_specs(draw):
    length = draw(gen.lengths(1, 3000))
    wrap = draw(st.booleans())
    loc = draw(gen.any_location(length, allow_span=wrap))
    if wrap:
        offset = draw(gen.coord(-2 * length, 2 * length, anchors=(0, length, -length)))
    else:
        low = -min(p[0] for p in loc["parts"])
        offset = draw(gen.coord(low, 2 * length))
    return {"L": length, "loc": loc, "k": offset, "wrap": wrap}


@st.composite
def touching_offset_specs(draw):
    """ locations whose consecutive exons touch (join(1..5,6..14)), possibly over the origin """
    length = draw(gen.lengths(4, 600))
    total = draw(st.integers(2, min(length, 60)))
    cuts = sorted(draw(st.lists(st.integers(1, total - 1), min_size=1, max_size=3, unique=True)))
    start = draw(gen.coord(0, length - 1))
    strand = draw(st.sampled_from([1, -1]))
    parts = []
    for lo, hi in zip([0] + cuts, cuts + [total]):
        first, last = start + lo, start + hi
        if first >= length:
            parts.append([first - length, last - length])
        elif last > length:
            parts.append([first, length])
            parts.append([0, last - length])
        else:
            parts.append([first, last])
    if strand == -1:
        parts.reverse()
    loc = {"parts": parts, "strand": strand}
    loc["kind"] = "span" if gen.is_span(loc) else "multi"
    offset = draw(gen.coord(-2 * length, 2 * length, anchors=(0, length - start, -start, length)))
    return {"L": length, "loc": loc, "k": offset, "wrap": True}


@st.composite
def bridge_specs(draw):
    length = draw(gen.lengths(2, 3000))
    return {"L": length, "loc": draw(gen.any_location(length))}


@st.composite
def text_specs(draw):
    length = draw(gen.lengths(2, 3000))
    loc = draw(gen.any_location(length, strands=(1, -1, 0, None)))
    mods = [[draw(st.sampled_from(["", "", "<"])), draw(st.sampled_from(["", "", ">"]))] for _ in loc["parts"]]
    return {"L": length, "parts": loc["parts"], "strand": loc["strand"], "mods": mods,
            "operator": draw(st.sampled_from(["join", "join", "order"]))}


@st.composite
def misc_specs(draw):
    length = draw(gen.lengths(2, 3000))
    loc = draw(gen.any_location(length))
    redundant = draw(st.lists(st.tuples(st.integers(0, 5), st.tuples(st.integers(0, 4), st.integers(0, 4))),
                              max_size=3))
    chunks = None
    if draw(st.booleans()):
        pieces = draw(st.lists(st.tuples(st.integers(1, 20), st.sampled_from([0, 0, 1, 5])), min_size=1, max_size=5))
        chunks = {"start": draw(st.integers(0, 50)), "pieces": [list(p) for p in pieces]}
    return {"L": length, "loc": loc, "redundant": [[i, list(c)] for i, c in redundant], "chunks": chunks}


def run(ctx) -> None:
    shards = ctx.pick(8, 16)
    ctx.enum("pair_enum", enum_pairs(ctx.pick(7, 10)), shards=shards)
    ctx.enum("connect_enum", enum_connect(ctx.pick(7, 9), ctx.pick(5, 7)), shards=shards)
    ctx.enum("extend_enum", enum_extend(ctx.pick(8, 12)), shards=shards)
    ctx.enum("offset_enum", enum_offset(ctx.pick(7, 10)), shards=shards)
    rand_shards = ctx.pick(4, 16)
    ctx.hyp("pair", pair_specs(), max_examples=ctx.pick(2000, 60000), shards=rand_shards)
    ctx.hyp("pair", big_pair_specs(), max_examples=ctx.pick(600, 20000), shards=rand_shards)
    ctx.hyp("pair", frameshift_pair_specs(), max_examples=ctx.pick(600, 20000), shards=rand_shards)
    ctx.hyp("offset", big_offset_specs(), max_examples=ctx.pick(400, 10000), shards=rand_shards)
    ctx.hyp("offset", touching_offset_specs(), max_examples=ctx.pick(600, 15000), shards=rand_shards)
    ctx.hyp("connect", connect_specs(), max_examples=ctx.pick(1500, 40000), shards=rand_shards)
    ctx.hyp("connect", wrapped_connect_specs(), max_examples=ctx.pick(800, 20000), shards=rand_shards)
    ctx.hyp("connect", frameshift_span_connect_specs(), max_examples=ctx.pick(600, 15000), shards=rand_shards)
    ctx.hyp("extend", extend_specs(), max_examples=ctx.pick(1000, 30000), shards=rand_shards)
    ctx.hyp("offset", offset_specs(), max_examples=ctx.pick(1500, 40000), shards=rand_shards)
    ctx.hyp("bridge", bridge_specs(), max_examples=ctx.pick(800, 20000), shards=rand_shards)
    ctx.hyp("text", text_specs(), max_examples=ctx.pick(800, 20000), shards=rand_shards)
    ctx.hyp("misc", misc_specs(), max_examples=ctx.pick(800, 20000), shards=rand_shards)
