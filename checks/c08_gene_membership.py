""" C08 - genes belong to exactly the areas that contain them, whatever the build order """

from __future__ import annotations

from hypothesis import strategies as st

from vlib import gen, ring
from vlib.build import make_cds, make_protocluster, make_record, make_subregion, to_loc
from vlib.runner import Violation, code_under_test

PROPERTY_ID = "C08"
LEVEL = "exploration"
RULE = ("lookup: gene layouts built by construction (touching, overlapping, nested, same start/end, both strands, "
        "multi-exon, origin-spanning) on records of 6..400 bases; for small records EVERY simple query [s,e) and every "
        "origin-spanning query is asked with and without overlaps and compared with a brute-force filter over all genes "
        "on the set-of-bases model. areas: the same layouts plus protoclusters/subregions, built in a generated "
        "interleaving of add_cds_feature / add_protocluster / add_subregion / create_candidate_clusters / create_regions; "
        "afterwards each area's cds_children, each gene's region and each protocluster's definition genes are compared "
        "with model containment. Non-trivial: the layout has a nested or same-start pair or an origin-spanning gene, or a "
        "query edge coincides with a gene edge; for areas: some gene is added after an area that contains it.")
ASSUMPTIONS = [
    "containment and overlap of locations are the C04 set-of-bases definitions (checked there)",
    "order clause: the result of a simple query is a subsequence of record.get_cds_features(); for origin-spanning "
    "queries non-spanning genes of the pre-origin part precede those of the post-origin part",
    "candidate cluster / region creation itself is judged by C05/C06; an exception from them is counted here as excluded",
]


def _build_record(spec: dict):
    record = make_record(spec["L"], spec["circular"])
    for gene in spec["genes"]:
        record.add_cds_feature(make_cds(gene["loc"], gene["name"]))
    return record


def _expected(genes: list, query: dict, overlapping: bool) -> set:
    names = set()
    for gene in genes:
        if ring.contains(query, gene["loc"]) or (overlapping and ring.overlap(query, gene["loc"])):
            names.add(gene["name"])
    return names


def _check_one_query(record, spec: dict, query: dict, overlapping: bool) -> None:
    genes = spec["genes"]
    with code_under_test("lookup_total"):
        got = record.get_cds_features_within_location(to_loc(query), with_overlapping=overlapping)
    got_names = [cds.get_name() for cds in got]
    want = _expected(genes, query, overlapping)
    if set(got_names) != want or len(got_names) != len(set(got_names)):
        raise Violation("lookup_set", {"query": query, "overlapping": overlapping, "got": got_names,
                                       "missing": sorted(want - set(got_names)),
                                       "extra": sorted(set(got_names) - want)})
    by_name = {gene["name"]: gene for gene in genes}
    plain = [name for name in got_names if not gen.is_span(by_name[name]["loc"])]
    record_order = [cds.get_name() for cds in record.get_cds_features()]
    if len(query["parts"]) == 1:
        ranks = [record_order.index(name) for name in got_names]
        if ranks != sorted(ranks):
            raise Violation("lookup_order", {"query": query, "overlapping": overlapping, "got": got_names,
                                             "record_order": record_order})
    else:
        # order along the arc of the query, for genes lying wholly inside one part of the query and for
        # origin-spanning genes contained in the query (genes with exons in both parts are left out)
        forward = query["parts"] if query.get("strand") != -1 else list(reversed(query["parts"]))
        arc_start = forward[0][0]
        keys = []
        for name in got_names:
            loc = by_name[name]["loc"]
            gene_forward = loc["parts"] if loc.get("strand") != -1 else list(reversed(loc["parts"]))
            if gen.is_span(loc):
                if not ring.contains(query, loc):
                    continue
            elif not any(ring.contains({"parts": [part]}, loc) for part in query["parts"]):
                continue
            # sections as the code base documents them: before the origin, crossing it, after it
            if gen.is_span(loc):
                keys.append((1, (gene_forward[0][0] - arc_start) % spec["L"]))
            else:
                first = min(p[0] for p in gene_forward)
                keys.append((0 if first >= arc_start else 2, first))
        if keys != sorted(keys):
            raise Violation("lookup_order", {"query": query, "overlapping": overlapping, "got": got_names,
                                             "arc_offsets": keys})


def _edge_coincides(genes: list, query: dict) -> bool:
    edges = {x for gene in genes for part in gene["loc"]["parts"] for x in part}
    return any(x in edges for part in query["parts"] for x in part)


def _layout_interesting(genes: list) -> bool:
    for i, one in enumerate(genes):
        if gen.is_span(one["loc"]):
            return True
        for two in genes[i + 1:]:
            a, b = one["loc"], two["loc"]
            if min(p[0] for p in a["parts"]) == min(p[0] for p in b["parts"]):
                return True
            if ring.contains(a, b) or ring.contains(b, a):
                return True
    return False


def check_lookup_all(spec: dict) -> dict:
    """ every query on one small layout """
    record = _build_record(spec)
    length = spec["L"]
    count = 0
    for start in range(length):
        for end in range(start + 1, length + 1):
            query = {"parts": [[start, end]], "strand": 1}
            for overlapping in (False, True):
                _check_one_query(record, spec, query, overlapping)
                count += 1
    if spec["circular"]:
        for start in range(1, length):
            for end in range(1, start + 1):
                query = {"parts": [[start, length], [0, end]], "strand": 1}
                for overlapping in (False, True):
                    _check_one_query(record, spec, query, overlapping)
                    count += 1
    classes = [f"genes_{min(len(spec['genes']), 8)}", "circular" if spec["circular"] else "linear"]
    if any(gen.is_span(g["loc"]) for g in spec["genes"]):
        classes.append("has_spanning_gene")
    if any(len(g["loc"]["parts"]) > 1 and not gen.is_span(g["loc"]) for g in spec["genes"]):
        classes.append("has_multi_exon_gene")
    return {"nontrivial": _layout_interesting(spec["genes"]), "classes": classes, "queries": count}


def check_lookup_one(spec: dict) -> dict:
    record = _build_record(spec)
    _check_one_query(record, spec, spec["query"], spec["overlapping"])
    classes = ["span_query" if len(spec["query"]["parts"]) > 1 else "simple_query",
               "overlapping" if spec["overlapping"] else "within"]
    if any(gen.is_span(g["loc"]) for g in spec["genes"]):
        classes.append("has_spanning_gene")
    return {"nontrivial": _layout_interesting(spec["genes"]) or _edge_coincides(spec["genes"], spec["query"]),
            "classes": classes}


# --------------------------------------------------------------------------- areas / build order

def _area_names(area) -> list:
    return [cds.get_name() for cds in area.cds_children]


def check_areas(spec: dict) -> dict:
    from antismash.common.secmet.qualifiers.gene_functions import GeneFunction
    length = spec["L"]
    record = make_record(length, spec["circular"])
    genes = {gene["name"]: gene for gene in spec["genes"]}
    cds_objects = {}
    for gene in spec["genes"]:
        cds = make_cds(gene["loc"], gene["name"])
        for product in gene.get("core_for", []):
            cds.gene_functions.add(GeneFunction.CORE, "verif", "desc", product)
        if gene.get("other_function"):
            cds.gene_functions.add(GeneFunction.ADDITIONAL, "verif", "desc")
        cds_objects[gene["name"]] = cds
    protos = []
    for proto in spec["protoclusters"]:
        protos.append(make_protocluster(proto["core"], proto["loc"], product=proto["product"]))
    subs = [make_subregion(sub["loc"], label=f"s{i}") for i, sub in enumerate(spec["subregions"])]
    added_after_area = False
    areas_present = False
    regions_failed = False
    stripped = False
    regions_cleared = False
    core_now = {gene["name"]: set(gene.get("core_for", [])) for gene in spec["genes"]}
    added: set = set()
    peeks = 0

    def peek() -> None:
        """ reading an area in the middle of a build: it lists exactly the genes added so far that it contains (and the
            read must not change what later reads give) """
        areas = [("protocluster", a) for a in record.get_protoclusters()]
        areas += [("candidate", a) for a in record.get_candidate_clusters()]
        areas += [("subregion", a) for a in record.get_subregions()]
        areas += [("region", a) for a in record.get_regions()]
        for label, area in areas:
            loc_spec = ring.from_bio(area.location)
            got = _area_names(area)
            want = {name for name in added if ring.contains(loc_spec, genes[name]["loc"])}
            if set(got) != want or len(got) != len(set(got)):
                raise Violation("area_members_midway", {"area": label, "location": loc_spec, "got": sorted(got),
                                                        "missing": sorted(want - set(got)),
                                                        "extra": sorted(set(got) - want), "ops": spec["ops"]})

    for op in spec["ops"]:
        kind, _, index = op.partition(":")
        if kind == "peek":
            with code_under_test("build_total"):
                peek()
            peeks += 1
            continue
        with code_under_test("build_total"):
            if kind == "strip":
                # everything antiSMASH added goes: areas and gene functions; the genes stay. Areas added afterwards
                # are new objects, and a gene is a defining gene again only if it is annotated again ("core:<i>")
                record.strip_antismash_annotations()
                stripped = True
                areas_present = False
                core_now = {name: set() for name in core_now}
                protos = [make_protocluster(proto["core"], proto["loc"], product=proto["product"])
                          for proto in spec["protoclusters"]]
                subs = [make_subregion(sub["loc"], label=f"s{i}") for i, sub in enumerate(spec["subregions"])]
            elif kind == "clear_regions":
                record.clear_regions()
                regions_cleared = True
            elif kind == "core":
                name = f"g{index}"
                for product in genes[name].get("core_for", []):
                    cds_objects[name].gene_functions.add(GeneFunction.CORE, "verif", "desc", product)
                    core_now[name].add(product)
            elif kind == "cds":
                if areas_present:
                    added_after_area = True
                record.add_cds_feature(cds_objects[f"g{index}"])
                added.add(f"g{index}")
            elif kind == "proto":
                record.add_protocluster(protos[int(index)])
                areas_present = True
            elif kind == "sub":
                record.add_subregion(subs[int(index)])
                areas_present = True
            elif kind == "cands":
                try:
                    record.create_candidate_clusters()
                except Exception:  # pylint: disable=broad-except
                    return {"nontrivial": False, "classes": ["excluded_candidate_creation_failed"]}
            elif kind == "regions":
                try:
                    record.create_regions()
                except Exception:  # pylint: disable=broad-except
                    regions_failed = True
    if regions_failed:
        return {"nontrivial": False, "classes": ["excluded_region_creation_failed"]}

    def model_members(loc_spec: dict) -> set:
        return {name for name, gene in genes.items() if ring.contains(loc_spec, gene["loc"])}

    collections = [("protocluster", a) for a in record.get_protoclusters()]
    collections += [("candidate", a) for a in record.get_candidate_clusters()]
    collections += [("subregion", a) for a in record.get_subregions()]
    collections += [("region", a) for a in record.get_regions()]
    for label, area in collections:
        loc_spec = ring.from_bio(area.location)
        got = _area_names(area)
        want = model_members(loc_spec)
        if set(got) != want or len(got) != len(set(got)):
            raise Violation("area_members", {"area": label, "location": loc_spec, "got": sorted(got),
                                             "missing": sorted(want - set(got)), "extra": sorted(set(got) - want)})
        if len(loc_spec["parts"]) == 2:
            # origin-spanning areas also list their genes by section
            pre = {"parts": [loc_spec["parts"][0]]}
            post = {"parts": [loc_spec["parts"][1]]}
            want_sections = {
                "pre_origin": {n for n in want if not gen.is_span(genes[n]["loc"]) and ring.contains(pre, genes[n]["loc"])},
                "cross_origin": {n for n in want if gen.is_span(genes[n]["loc"])},
                "post_origin": {n for n in want if not gen.is_span(genes[n]["loc"]) and ring.contains(post, genes[n]["loc"])},
            }
            # a multi-exon gene with exons on both sides of the origin belongs to no single section: not judged
            ambiguous = set(want) - set().union(*want_sections.values())
            children = area.cds_children
            got_sections = {key: {cds.get_name() for cds in getattr(children, key)} - ambiguous for key in want_sections}
            if got_sections != want_sections:
                raise Violation("area_sections", {"area": label, "location": loc_spec,
                                                  "got": {k: sorted(v) for k, v in got_sections.items()},
                                                  "want": {k: sorted(v) for k, v in want_sections.items()}})
    for proto in record.get_protoclusters():
        core_spec = ring.from_bio(proto.core_location)
        want = {name for name, gene in genes.items()
                if ring.contains(core_spec, gene["loc"]) and proto.product in core_now[name]}
        got = {cds.get_name() for cds in proto.definition_cdses}
        if got != want:
            raise Violation("definition_cdses", {"product": proto.product, "core": core_spec,
                                                 "got": sorted(got), "want": sorted(want)})
    regions = record.get_regions()
    for name, cds in cds_objects.items():
        containing = [region for region in regions if ring.contains(ring.from_bio(region.location), genes[name]["loc"])]
        if len(containing) > 1:
            return {"nontrivial": False, "classes": ["excluded_overlapping_regions"]}
        want_region = containing[0] if containing else None
        if cds.region is not want_region:
            raise Violation("cds_region", {"gene": name, "got": str(cds.region), "want": str(want_region)})
    return {"nontrivial": added_after_area,
            "classes": ["circular" if spec["circular"] else "linear",
                        "free_order" if spec["ops"].index("regions") < max(
                            [i for i, op in enumerate(spec["ops"]) if op.startswith(("proto", "sub"))] or [-1])
                        else "areas_before_regions",
                        "gene_after_area" if added_after_area else "genes_first",
                        "stripped_and_rebuilt" if stripped else "built_once",
                        "regions_cleared_once" if regions_cleared else "regions_never_cleared",
                        "read_midway" if peeks else "read_at_end_only",
                        "has_regions" if regions else "no_regions",
                        "span_area" if any(len(a.location.parts) > 1 for _, a in collections) else "plain_areas"]}


SUBCHECKS = {
    "lookup_all": check_lookup_all,
    "lookup_one": check_lookup_one,
    "areas": check_areas,
}
SIGNATURES: dict = {}


# --------------------------------------------------------------------------- strategies

@st.composite
def small_layouts(draw):
    length = draw(st.integers(6, 28))
    circular = draw(st.booleans())
    genes = draw(gen.gene_layout(length, circular, max_genes=7, size_hint=max(2, length // 4)))
    return {"L": length, "circular": circular, "genes": genes}


@st.composite
def one_query(draw):
    length = draw(gen.lengths(6, 400))
    circular = draw(st.booleans())
    genes = draw(gen.gene_layout(length, circular, max_genes=12))
    anchors = tuple(x for g in genes for p in g["loc"]["parts"] for x in p)
    query = draw(gen.arc(length, allow_span=circular, strands=(1,), anchors=anchors))
    query.pop("kind", None)
    # the strand of the question does not matter for which genes lie in it (areas are forward, locations read from
    # text may carry strand 0 or none)
    query["strand"] = draw(st.sampled_from([1, 1, 0, None]))
    return {"L": length, "circular": circular, "genes": genes, "query": query,
            "overlapping": draw(st.booleans())}


@st.composite
def area_specs(draw):
    length = draw(gen.lengths(30, 600))
    circular = draw(st.booleans())
    genes = draw(gen.gene_layout(length, circular, max_genes=10))
    products = ["pa", "pb", "pc"]
    anchors = tuple(x for g in genes for p in g["loc"]["parts"] for x in p)
    protos = []
    for _ in range(draw(st.integers(0, 4))):
        core = draw(gen.arc(length, allow_span=circular, strands=(1,), anchors=anchors,
                            max_len=max(1, length // 3)))
        core.pop("kind", None)
        core_bases = ring.bases(core)
        start = core["parts"][0][0]
        extent = draw(st.sampled_from([0, 1, 5, length // 10]))
        size = len(core_bases)
        if circular:
            full = ring.extend_arc(start, size, extent, length, True)
            if len(full) == length and len(core["parts"]) == 2:
                extent = 0
                full = ring.arc_bases(start, size, length)
            if len(full) == length:
                loc = {"parts": [[0, length]], "strand": 1}
            else:
                loc = ring.arc_to_loc((start - extent) % length, size + 2 * extent, length, 1)
        else:
            loc = {"parts": [[max(0, start - extent), min(length, start + size + extent)]], "strand": 1}
        protos.append({"core": core, "loc": loc, "product": draw(st.sampled_from(products))})
    subs = []
    for _ in range(draw(st.integers(0, 3))):
        sub = draw(gen.arc(length, allow_span=circular, strands=(1,), anchors=anchors, max_len=max(1, length // 2)))
        sub.pop("kind", None)
        subs.append({"loc": sub})
    if not protos and not subs:
        subs.append({"loc": {"parts": [[0, max(1, length // 2)]], "strand": 1}})
    for gene in genes:
        gene["core_for"] = draw(st.lists(st.sampled_from(products), max_size=2, unique=True))
        gene["other_function"] = draw(st.booleans())
    # interleaving: phase per gene, then a drawn order of the area additions
    phases = [draw(st.integers(0, 3)) for _ in genes]
    area_ops = [f"proto:{i}" for i in range(len(protos))] + [f"sub:{i}" for i in range(len(subs))]
    middle = area_ops + [f"cds:{i}" for i, phase in enumerate(phases) if phase == 1]
    middle = draw(st.permutations(middle))
    first = draw(st.permutations([f"cds:{i}" for i, phase in enumerate(phases) if phase == 0]))
    third = draw(st.permutations([f"cds:{i}" for i, phase in enumerate(phases) if phase == 2]))
    last = draw(st.permutations([f"cds:{i}" for i, phase in enumerate(phases) if phase == 3]))
    ops = list(first) + list(middle) + ["cands"] + list(third) + ["regions"] + list(last)
    if draw(st.integers(0, 2)) == 0:
        # any interleaving at all: areas may be added after candidates / regions were created
        ops = list(draw(st.permutations(ops)))
    if draw(st.integers(0, 3)) == 0:
        # regions cleared at the end (no gene may keep pointing at one), and perhaps created again
        ops = ops + ["clear_regions"] + (["regions"] if draw(st.booleans()) else [])
    elif draw(st.integers(0, 2)) == 0:
        # a second life: strip what antiSMASH added, annotate some genes again, add (some of) the areas again
        again = [f"core:{i}" for i, gene in enumerate(genes) if gene["core_for"] and draw(st.booleans())]
        readd = [op for op in area_ops if draw(st.integers(0, 3)) > 0]
        # genes not yet in the record cannot be annotated again before they are added: add them first
        missing = [f"cds:{i}" for i in range(len(genes)) if f"cds:{i}" not in ops]
        second = list(draw(st.permutations(again + readd))) + ["cands", "regions"]
        ops = ops + missing + ["strip"] + second
    if draw(st.booleans()):
        # areas read in the middle of the build (a read fills caches that later additions have to invalidate)
        for _ in range(draw(st.integers(1, 4))):
            ops.insert(draw(st.integers(0, len(ops))), "peek")
    return {"L": length, "circular": circular, "genes": genes, "protoclusters": protos,
            "subregions": subs, "ops": ops}


def run(ctx) -> None:
    ctx.hyp("lookup_all", small_layouts(), max_examples=ctx.pick(160, 4000), shards=ctx.pick(8, 16))
    ctx.hyp("lookup_one", one_query(), max_examples=ctx.pick(3000, 80000), shards=ctx.pick(8, 16))
    ctx.hyp("areas", area_specs(), max_examples=ctx.pick(1500, 40000), shards=ctx.pick(8, 16))
