""" C17 - same input, same output: results do not depend on the process or hash seed

    Mechanism: a pool of long-lived child processes (vlib/c17_worker.py), each started with its own
    PYTHONHASHSEED and each allocating a child-specific amount of ballast before every run (so that
    identity-hashed containers see different addresses).  The parent sends the plain-JSON spec to every child;
    every child runs the same antiSMASH code on it (twice, with different ballast) and answers sha256 digests of
    canonical dumps, one per pipeline stage.  The property: every run of every child gives the same digest for
    every stage.  On a disagreement the parent fetches the two dumps, locates the differences and turns each
    kind of difference into one clause failure; the first failure that no SIGNATURE explains is raised.

    Subchecks
      refine   hmmscan_refinement.refine_hmmscan_results, list mode and neighbour mode
      hmmer    hmmer.remove_overlapping
      filter   cluster_prediction.filter_results -> filter_result_multiple
      detect   hmm_detection.run_on_record (DynamicProfile-only Ruleset) -> annotate -> add protoclusters ->
               create_candidate_clusters -> create_regions -> GenBank text, per-region GenBank files, results JSON text
      areas    records with given protoclusters / subregions (equal coordinates, equal products) ->
               create_candidate_clusters -> create_regions -> GenBank text, per-region GenBank files, results JSON text

    Stages of detect / areas, compared one by one: protoclusters, cds_annotations (detect only), areas_sets (which
    areas exist, order-free), candidate_member_repeats, areas (numbering and every order), genbank, region_genbank,
    results_json.
"""

from __future__ import annotations

import atexit
import collections
import json
import os
import random
import re
import shutil
import subprocess
import sys
import tempfile
from typing import Any, Optional

from hypothesis import strategies as st

from vlib import runner
from vlib.runner import HarnessError, Violation

PROPERTY_ID = "C17"
LEVEL = "exploration"
RULE = ("Every case is executed by every child process of the pool (hash seeds 0-6 and 4294967295 plus seeds drawn "
        "from Random(VERIF_SEED); quick 10 children, thorough 16), twice per child with different amounts of "
        "ballast allocated before the run; all runs must give identical canonical dumps for every stage (hits kept; "
        "protoclusters; which areas exist; numbering and every order of areas; GenBank text of the record and of every "
        "region; results JSON text). "
        "refine: 2-7 hits on one or two proteins, 2-5 profiles (lengths 10/20/50/100), starts copied from earlier "
        "hits (equal starts), scores from a 3-value set, both modes; hmmer: HmmerHits around overlap_limit with "
        "equal normalised scores; filter: HSPs of equivalent profiles overlapping by 19-22 with equal scores; "
        "detect: records of 2-8 genes (gaps around the cutoff, one gene in five with an antisense partner of equal start and "
        "length, optional origin-spanning gene), 1-4 rules built from "
        "condition templates over 6 dynamic profiles (plain names, or names equal up to case / prefixes of each other / "
        "differing only in '-' and '_' / digits against letters, several of them defining one rule on one gene), often sharing cutoff/neighbourhood so that protoclusters of "
        "different products get equal coordinates, superiors, extenders, existing subregions; areas: 1-6 "
        "protoclusters built on runs of genes with copied coordinates, repeated products, shared defining genes, near "
        "ties (same outer location and product/tool/core start but another core end, same core but another tool, same "
        "core start but another product), a per-case ballast 0-7 added to every child's allocations, "
        "origin-crossing areas, subregions with equal coordinates. Non-trivial: refine/hmmer/filter - two hits tie "
        "on start or (normalised) score; detect/areas - two protoclusters or candidates with equal coordinates, a "
        "region with several products, or a gene with several defining domains for one rule. distinct = sha1 of "
        "the canonical spec.")
ASSUMPTIONS = [
    "a sample of hash seeds and heap layouts, not all of them: the fixed seeds 0-6 and 2**32-1 plus 2 (quick) or 8 "
    "(thorough) seeds from Random(VERIF_SEED); two ballast sizes per child and case",
    "children import antismash from the same repository as the parent (VERIF_REPO, same sys.path order)",
    "detection runs with DynamicProfile-only rulesets (no HMMER binary): hmm_detection.get_ruleset is replaced by "
    "a function returning the spec's Ruleset, everything after it is the unmodified code",
    "HSP stand-ins for filter_results hash and compare by identity, as Bio.SearchIO's HSP does",
    "an exception raised identically (type and antismash frame) by every run is a consistent result, not a "
    "violation of this property; a run that raises outside antismash code is a harness error",
    "timestamps: none of the compared outputs contains one (results JSON is built with empty timings)",
]

FIXED_SEEDS = [0, 1, 2, 3, 4, 5, 6, 4294967295]
REPEATS = 2
WORKER = os.path.join(runner.VERIF_DIR, "vlib", "c17_worker.py")


# =========================================================================== the pool of children

class _Child:
    def __init__(self, index: int, hashseed: int, garbage: int, scratch: str) -> None:
        self.index = index
        self.hashseed = hashseed
        self.garbage = garbage
        env = dict(os.environ)
        env["PYTHONHASHSEED"] = str(hashseed)
        env["VERIF_REPO"] = runner.REPO_DIR
        env["VERIF_C17_SCRATCH"] = scratch
        stderr = None if os.environ.get("VERIF_C17_DEBUG") else subprocess.DEVNULL
        self.proc = subprocess.Popen([sys.executable, "-u", WORKER, str(index), str(garbage)],
                                     stdin=subprocess.PIPE, stdout=subprocess.PIPE, stderr=stderr, env=env,
                                     text=True, encoding="utf-8", close_fds=True)

    def send(self, message: dict) -> None:
        try:
            self.proc.stdin.write(json.dumps(message, separators=(",", ":")) + "\n")
            self.proc.stdin.flush()
        except (BrokenPipeError, OSError) as err:
            raise HarnessError(f"C17 child {self.index} (hash seed {self.hashseed}) is gone: {err}") from err

    def receive(self) -> dict:
        line = self.proc.stdout.readline()
        if not line:
            code = self.proc.poll()
            raise HarnessError(f"C17 child {self.index} (hash seed {self.hashseed}) died, exit code {code}")
        reply = json.loads(line)
        if "fatal" in reply:
            raise HarnessError(f"C17 child {self.index} failed in the worker itself: {reply['fatal']}")
        return reply

    def close(self) -> None:
        try:
            if self.proc.stdin:
                self.proc.stdin.close()
        except OSError:
            pass
        try:
            self.proc.wait(timeout=10)
        except subprocess.TimeoutExpired:
            self.proc.kill()
            self.proc.wait()
        if self.proc.stdout:
            self.proc.stdout.close()


class Pool:
    """ the children of one parent process; never shared across a fork """
    def __init__(self, hashseeds: list) -> None:
        self.pid = os.getpid()
        self.counter = 0
        self.children: list = []
        self.scratch = tempfile.mkdtemp(prefix="verif_c17_")      # per-region GenBank files of the children
        try:
            for index, seed in enumerate(hashseeds):
                self.children.append(_Child(index, seed, index, self.scratch))
            for child in self.children:
                child.send({"op": "ping"})
            for child in self.children:
                pong = child.receive()
                if os.path.realpath(pong["repo"]) != os.path.realpath(runner.REPO_DIR):
                    raise HarnessError(f"C17 child imports antismash from {pong['repo']}, not {runner.REPO_DIR}")
                if str(pong["hashseed"]) != str(child.hashseed):
                    raise HarnessError("C17 child runs with the wrong hash seed")
        except BaseException:
            self.close()
            raise

    def run(self, sub: str, spec: dict) -> list:
        self.counter += 1
        message = {"op": "run", "id": self.counter, "sub": sub, "spec": spec, "repeats": REPEATS}
        for child in self.children:
            child.send(message)
        replies = [child.receive() for child in self.children]
        for reply in replies:
            if reply.get("id") != self.counter:
                raise HarnessError("C17 protocol out of step")
        return replies

    def dump(self, child_index: int, repeat: int, stage: str) -> Any:
        child = self.children[child_index]
        self.counter += 1
        child.send({"op": "dump", "id": self.counter, "repeat": repeat, "stage": stage})
        return child.receive()["dump"]

    def close(self) -> None:
        if os.getpid() != self.pid:
            return      # a forked copy: the pipes belong to the process that started the children
        for child in self.children:
            child.close()
        self.children = []
        shutil.rmtree(self.scratch, ignore_errors=True)


_POOL: Optional[Pool] = None
_POOL_SEEDS: Optional[list] = None


def _default_seeds(extra: int = 2) -> list:
    seed = int(os.environ.get("VERIF_SEED", "1") or "1")
    return _seeds_for(seed, extra)


def _seeds_for(seed: int, extra: int) -> list:
    rng = random.Random(seed)
    seeds = list(FIXED_SEEDS)
    while len(seeds) < len(FIXED_SEEDS) + extra:
        value = rng.randrange(7, 4294967295)
        if value not in seeds:
            seeds.append(value)
    return seeds


def _pool() -> Pool:
    global _POOL  # pylint: disable=global-statement
    if _POOL is not None and _POOL.pid != os.getpid():
        _POOL = None        # forked: start children of our own, leave the parent's pipes alone
    if _POOL is None:
        _POOL = Pool(_POOL_SEEDS or _default_seeds())
    return _POOL


def _close_pool() -> None:
    global _POOL  # pylint: disable=global-statement
    if _POOL is not None:
        _POOL.close()
        _POOL = None


atexit.register(_close_pool)


# =========================================================================== locating differences

def _canon(value: Any) -> str:
    return json.dumps(value, sort_keys=True, default=str)


def _short(value: Any, limit: int = 300) -> Any:
    text = _canon(value)
    return value if len(text) <= limit else text[:limit] + "..."


def _json_diff(one: Any, two: Any, path: str, out: list) -> None:
    """ appends (path with indices generalised, kind, value one, value two) for every difference """
    if len(out) > 400:
        return
    if isinstance(one, dict) and isinstance(two, dict):
        keys_one, keys_two = list(one), list(two)
        if keys_one != keys_two:
            kind = "key_order" if sorted(keys_one) == sorted(keys_two) else "keys"
            out.append((path, kind, keys_one, keys_two))
        for key in keys_one:
            if key in two:
                _json_diff(one[key], two[key], f"{path}.{key}" if path else str(key), out)
        return
    if isinstance(one, list) and isinstance(two, list):
        if one == two:
            return
        if len(one) != len(two):
            out.append((path, "length", one, two))
            return
        if sorted(map(_canon, one)) == sorted(map(_canon, two)):
            out.append((path, "list_order", one, two))
            return
        for sub_one, sub_two in zip(one, two):
            _json_diff(sub_one, sub_two, path + "[]", out)
        return
    if one != two or type(one) is not type(two):
        out.append((path, "value", one, two))


_FEATURE_LINE = re.compile(r"^ {5}(\S+) +\S")
_QUALIFIER_LINE = re.compile(r"^ {21}/([A-Za-z_0-9]+)")


def _genbank_contexts(text: str) -> list:
    """ (context, line) per line; context = '<feature type>./<qualifier>' inside the feature table """
    out = []
    section = "header"
    feature = ""
    qualifier = ""
    for line in text.split("\n"):
        if line.startswith("FEATURES"):
            section = "features"
        elif line.startswith("ORIGIN"):
            section = "origin"
        if section == "features":
            match = _FEATURE_LINE.match(line)
            if match:
                feature, qualifier = match.group(1), "location"
            else:
                match = _QUALIFIER_LINE.match(line)
                if match:
                    qualifier = match.group(1)
            out.append((f"{feature}./{qualifier}" if feature else "features", line))
        else:
            out.append((section, line))
    return out


def _genbank_diff(one: str, two: str, out: list) -> None:
    lines_one, lines_two = _genbank_contexts(one), _genbank_contexts(two)
    same_lines = sorted(line for _, line in lines_one) == sorted(line for _, line in lines_two)
    if len(lines_one) != len(lines_two):
        out.append(("genbank", "line_count", len(lines_one), len(lines_two)))
        return
    for (ctx_one, line_one), (ctx_two, line_two) in zip(lines_one, lines_two):
        if line_one != line_two:
            kind = "lines_reordered" if same_lines else "lines_changed"
            out.append((ctx_one if ctx_one == ctx_two else f"{ctx_one}<>{ctx_two}", kind, line_one.strip(),
                        line_two.strip()))


TEXT_STAGES_JSON = {"results_json"}
TEXT_STAGES_GENBANK = {"genbank"}
FILE_STAGES_GENBANK = {"region_genbank"}       # {file name: GenBank text}


def _differences(stage: str, one: Any, two: Any) -> list:
    out: list = []
    if stage in TEXT_STAGES_JSON and isinstance(one, str) and isinstance(two, str):
        _json_diff(json.loads(one), json.loads(two), "", out)
        if not out:
            out.append(("", "text_only", one[:200], two[:200]))
    elif stage in TEXT_STAGES_GENBANK and isinstance(one, str) and isinstance(two, str):
        _genbank_diff(one, two, out)
    elif stage in FILE_STAGES_GENBANK and isinstance(one, dict) and isinstance(two, dict):
        if list(one) != list(two):
            out.append(("files", "keys", list(one), list(two)))
        for name, text in one.items():
            if name in two and text != two[name]:
                _genbank_diff(text, two[name], out)
    else:
        _json_diff(one, two, "", out)
    return out


# =========================================================================== the common body

def _units(pool: Pool, replies: list) -> list:
    """ one unit per (child, repeat): dict with child, hashseed, repeat, digests, error """
    units = []
    for child, reply in zip(pool.children, replies):
        for repeat, run in enumerate(reply["runs"]):
            units.append({"child": child.index, "hashseed": child.hashseed, "repeat": repeat,
                          "digests": run["digests"], "error": run["error"]})
    return units


def _error_key(error: Optional[dict]) -> str:
    if error is None:
        return "none"
    return f"{error['type']}@{error['where']}@{error.get('stage')}"


def _run_case(sub: str, spec: dict, facts: dict) -> tuple:
    """ -> (failures [(clause, detail)], info of child 0, consistent error or None) """
    pool = _pool()
    replies = pool.run(sub, spec)
    units = _units(pool, replies)
    for unit in units:
        error = unit["error"]
        if error is not None and not error["in_antismash"]:
            raise HarnessError(f"C17 worker raised outside antismash code (sub {sub}, hash seed {unit['hashseed']}): "
                               f"{error['type']}: {error['message']}\n{error.get('traceback', '')}\nspec={spec}")
    failures: list = []
    first = units[0]
    # 1. exceptions: all runs must end the same way
    keys = collections.OrderedDict()
    for unit in units:
        keys.setdefault(_error_key(unit["error"]), []).append(unit)
    if len(keys) > 1:
        other = next(unit for unit in units if _error_key(unit["error"]) != _error_key(first["error"]))
        failures.append(("exception_differs", dict(facts, **{
            "stage": (first["error"] or other["error"] or {}).get("stage"),
            "hashseeds": [first["hashseed"], other["hashseed"]], "repeats": [first["repeat"], other["repeat"]],
            "one": first["error"], "two": other["error"],
            "outcomes": {key: len(group) for key, group in keys.items()}})))
    # 2. every stage completed by the first run: all runs that completed it must agree
    result_classes = sorted((replies[0].get("info") or {}).get("classes") or [])
    stage_names = list(first["digests"])
    for position, (stage, reference) in enumerate(first["digests"].items()):
        other = next((unit for unit in units if unit["digests"].get(stage, reference) != reference), None)
        if other is None:
            continue
        upstream = [name for name in stage_names[:position]
                    if other["digests"].get(name, first["digests"][name]) != first["digests"][name]]
        one = pool.dump(first["child"], first["repeat"], stage)
        two = pool.dump(other["child"], other["repeat"], stage)
        differences = _differences(stage, one, two)
        if not differences:
            raise HarnessError(f"C17 digests of stage {stage} differ but the dumps do not")
        groups = collections.Counter(unit["digests"].get(stage, "missing") for unit in units)
        grouped: dict = collections.OrderedDict()
        for path, kind, val_one, val_two in differences:
            grouped.setdefault((path, kind), []).append((val_one, val_two))
        for (path, kind), samples in grouped.items():
            failures.append((f"{stage}_differs", dict(facts, **{
                "stage": stage, "where": path, "kind": kind, "count": len(samples),
                "one": _short(samples[0][0]), "two": _short(samples[0][1]),
                "hashseeds": [first["hashseed"], other["hashseed"]], "repeats": [first["repeat"], other["repeat"]],
                "same_process": first["child"] == other["child"],
                "distinct_outcomes": len(groups), "upstream": upstream, "result_classes": result_classes})))
    consistent_error = first["error"] if len(keys) == 1 else None
    return failures, replies[0].get("info") or {}, consistent_error


def _pick_failure(sub: str, spec: dict, failures: list) -> Optional[tuple]:
    """ the first failure no signature explains, else the one the spec prefers, else the first one """
    if not failures:
        return None
    for clause, detail in failures:
        if not any(sig(sub, spec, clause, detail) for sig in SIGNATURES.values()):
            return clause, detail
    # everything is explained: report the failure the spec asks for (witnesses of known findings name theirs)
    preferred = SIGNATURES.get(spec.get("prefer", ""))
    if preferred is not None:
        for clause, detail in failures:
            if preferred(sub, spec, clause, detail):
                return clause, detail
    return failures[0]


_SEEN_FAILING: dict = {}
_KNOWN_ONLY: dict = {}      # sub -> {"cases": n, "nontrivial": set of digests, "classes": Counter}


def _finish(sub: str, spec: dict, facts: dict, classes: list, nontrivial) -> dict:
    """ runs the case; `nontrivial` is a bool or a function of the worker's class labels """
    # one observed disagreement is a counterexample for good: a case that failed once in this process fails the
    # same way when Hypothesis replays it while shrinking (layout-dependent results need not differ every time)
    key = sub + runner.digest(spec)
    info: dict = {}
    error = None
    failure = _SEEN_FAILING.get(key)
    first_sight = failure is None
    if first_sight:
        failures, info, error = _run_case(sub, spec, facts)
        failure = _pick_failure(sub, spec, failures)
        if failure is not None:
            if len(_SEEN_FAILING) > 50000:
                _SEEN_FAILING.clear()
            _SEEN_FAILING[key] = failure
    worker_classes = list(info.get("classes") or [])
    classes = list(classes) + worker_classes
    if error is not None:
        classes.append(f"raised_consistently_{error['type']}")
    is_nontrivial = bool(nontrivial(worker_classes)) if callable(nontrivial) else bool(nontrivial)
    if failure is not None:
        if first_sight and any(sig(sub, spec, *failure) for sig in SIGNATURES.values()):
            # judged on every clause, nothing but known findings: the runner counts such a case as excluded only
            stats = _KNOWN_ONLY.setdefault(sub, {"cases": 0, "nontrivial": set(), "classes": collections.Counter()})
            stats["cases"] += 1
            stats["classes"].update(classes)
            if is_nontrivial:
                stats["nontrivial"].add(key)
        raise Violation(*failure)       # the only raise: Hypothesis tells failures apart by the raising line
    return {"nontrivial": is_nontrivial, "classes": classes}


# =========================================================================== subcheck bodies (facts are pure functions of the spec)

def _pairs(items: list):
    for i, one in enumerate(items):
        for two in items[i + 1:]:
            yield one, two


def _refine_facts(spec: dict) -> dict:
    by_cds: dict = {}
    for raw in spec["hits"]:
        key = tuple(raw[:5])
        if key not in by_cds.setdefault(raw[5], []):
            by_cds[raw[5]].append(key)
    equal_start = [[list(a), list(b)] for hits in by_cds.values() for a, b in _pairs(hits) if a[1] == b[1]]
    equal_score = any(a[3] == b[3] for hits in by_cds.values() for a, b in _pairs(hits))
    return {"equal_start_pairs": equal_start[:6], "equal_scores": equal_score,
            "cds_with_equal_starts": sorted({f"cds{cds}" for cds, hits in by_cds.items()
                                             for a, b in _pairs(hits) if a[1] == b[1]})}


def check_refine(spec: dict) -> dict:
    facts = _refine_facts(spec)
    classes = [f"n_{min(len(spec['hits']), 7)}"]
    if facts["equal_start_pairs"]:
        classes.append("start_tie")
    if facts["equal_scores"]:
        classes.append("score_tie")
    if len({raw[5] for raw in spec["hits"]}) > 1:
        classes.append("two_proteins")
    return _finish("refine", spec, facts, classes, bool(facts["equal_start_pairs"]) or facts["equal_scores"])


def _hmmer_facts(spec: dict) -> dict:
    hits = []
    for raw in spec["hits"]:
        key = (raw[0], raw[1], raw[2], raw[3])
        if key not in hits:
            hits.append(key)
    cutoffs = spec["cutoffs"]
    ranks = [(cutoffs[h[0]] / h[3], h[2] - h[1], h[1], h[0]) for h in hits]
    return {"equal_starts": any(a[1] == b[1] for a, b in _pairs(hits)),
            "equal_normalised_scores": any(a[0] == b[0] for a, b in _pairs(ranks)),
            "equal_ranks": any(a == b for a, b in _pairs(ranks))}


def check_hmmer(spec: dict) -> dict:
    facts = _hmmer_facts(spec)
    classes = [f"limit_{spec['limit']}", f"n_{min(len(spec['hits']), 7)}"]
    classes.extend(name for name, value in facts.items() if value)
    return _finish("hmmer", spec, facts, classes, facts["equal_starts"] or facts["equal_normalised_scores"])


def _overlap(one: list, two: list) -> int:
    return max(0, min(one[3], two[3]) - max(one[2], two[2]))


def _filter_facts(spec: dict) -> dict:
    """ which kinds of score ties the spec contains (hits are [cds, profile, start, end, score]) """
    hits = spec["hits"]
    by_cds: dict = {}
    for raw in hits:
        by_cds.setdefault(raw[0], []).append(raw)
    tied_overlapping = False
    tied_same_profile = False
    for members in by_cds.values():
        # connected components of the 'overlap by more than 20' graph
        parent = list(range(len(members)))

        def find(i: int) -> int:
            while parent[i] != i:
                parent[i] = parent[parent[i]]
                i = parent[i]
            return i
        for i, one in enumerate(members):
            for j in range(i + 1, len(members)):
                if _overlap(one, members[j]) > 20:
                    parent[find(i)] = find(j)
        comps: dict = {}
        for i in range(len(members)):
            comps.setdefault(find(i), []).append(members[i])
        for comp in comps.values():
            scores = [h[4] for h in comp]
            if len(comp) > 1 and len(set(scores)) < len(scores):
                tied_overlapping = True
        for one, two in _pairs(members):
            if one[1] == two[1] and one[4] == two[4]:
                tied_same_profile = True
    return {"equal_scores_in_overlap_group": tied_overlapping, "equal_scores_same_profile": tied_same_profile}


def check_filter(spec: dict) -> dict:
    facts = _filter_facts(spec)
    classes = [f"n_{min(len(spec['hits']), 8)}"]
    classes.extend(name for name, value in facts.items() if value)
    return _finish("filter", spec, facts, classes, any(facts.values()))


NONTRIVIAL_AREA_CLASSES = {"equal_coordinate_protoclusters", "equal_coordinate_candidates", "unordered_protoclusters",
                           "definition_domains_equal_up_to_case", "definition_domains_equal_up_to_punctuation",
                           "region_with_several_products", "cds_with_several_definition_domains",
                           "equal_coordinate_cdses_in_crossing_area", "equal_coordinate_cdses_in_plain_area"}


def _detect_facts(spec: dict) -> dict:
    return {"rules": [rule["name"] for rule in spec["rules"]],
            "genes_with_several_hits": sorted(gene for gene, hits in spec["hits"].items() if len(hits) > 1)}


def check_detect(spec: dict) -> dict:
    facts = _detect_facts(spec)
    classes = [f"rules_{len(spec['rules'])}", "circular" if spec["circular"] else "linear"]
    lowered = [name.lower() for name in spec["profiles"]]
    if len(set(lowered)) < len(lowered):
        classes.append("profile_names_equal_up_to_case")
    if any(one != two and two.startswith(one) for one in spec["profiles"] for two in spec["profiles"]):
        classes.append("profile_names_prefix_of_each_other")
    if spec.get("subregions"):
        classes.append("spec_subregions")
    if any(rule.get("superiors") for rule in spec["rules"]):
        classes.append("superiors")
    if any(rule.get("extenders") for rule in spec["rules"]):
        classes.append("extenders")
    return _finish("detect", spec, facts, classes, lambda found: bool(NONTRIVIAL_AREA_CLASSES & set(found)))


def _span(loc: dict) -> tuple:
    starts = [part[0] for part in loc["parts"]]
    ends = [part[1] for part in loc["parts"]]
    if len(loc["parts"]) > 1:
        return (loc["parts"][0][0], loc["parts"][-1][1])
    return (min(starts), max(ends))


def _areas_facts(spec: dict) -> dict:
    protos = spec["protoclusters"]
    equal = [[a["product"], b["product"]] for a, b in _pairs(protos) if _span(a["loc"]) == _span(b["loc"])]
    same_loc = [(a, b) for a, b in _pairs(protos) if a["loc"]["parts"] == b["loc"]["parts"]]
    return {"equal_coordinate_protoclusters": equal[:6],
            "equal_products": any(a["product"] == b["product"] for a, b in _pairs(protos)),
            "near_tie_core_end": any(a["product"] == b["product"] and a["tool"] == b["tool"]
                                     and a["core"]["parts"][0][0] == b["core"]["parts"][0][0]
                                     and a["core"]["parts"] != b["core"]["parts"] for a, b in same_loc),
            "near_tie_tool": any(a["product"] == b["product"] and a["tool"] != b["tool"]
                                 and a["core"]["parts"] == b["core"]["parts"] for a, b in same_loc),
            "near_tie_product": any(a["product"] != b["product"] and a["core"]["parts"][0][0] == b["core"]["parts"][0][0]
                                    and a["core"]["parts"] != b["core"]["parts"] for a, b in same_loc)}


def check_areas(spec: dict) -> dict:
    facts = _areas_facts(spec)
    classes = ["circular" if spec["circular"] else "linear", f"spec_protoclusters_{min(len(spec['protoclusters']), 6)}"]
    if facts["equal_coordinate_protoclusters"]:
        classes.append("spec_equal_coordinates")
    if facts["equal_products"]:
        classes.append("spec_equal_products")
    if any(len(p["loc"]["parts"]) > 1 for p in spec["protoclusters"]):
        classes.append("spec_origin_crossing")
    classes.extend(name for name in ("near_tie_core_end", "near_tie_tool", "near_tie_product") if facts[name])
    tied = bool(facts["equal_coordinate_protoclusters"] or facts["equal_products"])
    return _finish("areas", spec, facts, classes, lambda found: tied or bool(NONTRIVIAL_AREA_CLASSES & set(found)))


SUBCHECKS = {
    "refine": check_refine,
    "hmmer": check_hmmer,
    "filter": check_filter,
    "detect": check_detect,
    "areas": check_areas,
}

SIGNATURES: dict = {}


def _sig(func):
    SIGNATURES[func.__name__.lstrip("_")] = func
    return func


# Every finding of this check (rounds 1-3) has been repaired in /repo (see notes/C17.md and known_findings.json); the
# witnesses are ordinary regressions in replays/C17/fixed-*.json and no signature is left: any disagreement between
# runs is a plain violation.


# =========================================================================== generators

PROFILE_POOL = [("pA", 10), ("pB", 50), ("pC", 100), ("pD_regulator", 20), ("pE", 10)]
SCORES = [10.0, 20.0, 30.0]


@st.composite
def refine_specs(draw) -> dict:
    count = draw(st.integers(2, 5))
    first = draw(st.integers(0, len(PROFILE_POOL) - 1))
    lengths = {}
    for offset in range(count):
        name, size = PROFILE_POOL[(first + offset) % len(PROFILE_POOL)]
        lengths[name] = draw(st.sampled_from([size, size, 10, 20, 50, 100]))
    names = sorted(lengths)
    two = draw(st.integers(0, 4)) == 0
    hits: list = []
    for _ in range(draw(st.sampled_from([2, 2, 3, 3, 4, 4, 5, 6, 7]))):
        profile = draw(st.sampled_from(names))
        full = lengths[profile]
        size = max(1, draw(st.sampled_from([full, full, full - 1, full // 2, full // 2 + 1, full // 3, full // 3 + 1,
                                            (3 * full) // 2 - 1, 2 * full, (6 * full) // 10])))
        if hits and draw(st.integers(0, 9)) < 7:
            ref = draw(st.sampled_from(hits))
            margin = max(full, lengths[ref[0]]) // 5
            start = max(0, draw(st.sampled_from([ref[1], ref[1], ref[1], ref[1], ref[2], ref[2] - 1, ref[1] + 1,
                                                 ref[2] - margin, ref[2] - margin - 1,
                                                 ref[1] + (ref[2] - ref[1]) // 2])))
        else:
            start = draw(st.integers(0, 120))
        score = draw(st.one_of(st.sampled_from(SCORES), st.sampled_from(SCORES),
                               st.integers(1, 400).map(lambda v: v / 10)))
        exponent = draw(st.one_of(st.just(int(score)), st.integers(1, 40)))
        cds = draw(st.integers(0, 1)) if two else 0
        hits.append([profile, int(start), int(start + size), float(score), int(exponent), cds])
    return {"lengths": lengths, "hits": hits, "split": draw(st.sampled_from([1, 1, 2, 3]))}


@st.composite
def hmmer_specs(draw) -> dict:
    limit = draw(st.sampled_from([1, 10, 10, 10, 100]))
    names = ["PF001", "PF002", "PF003", "PF004"][:draw(st.integers(1, 4))]
    cutoffs = {name: draw(st.sampled_from([10.0, 20.0, 25.0, 40.0])) for name in names}
    hits: list = []
    for _ in range(draw(st.sampled_from([2, 3, 3, 4, 4, 5, 5, 6, 7]))):
        identifier = draw(st.sampled_from(names))
        size = max(1, draw(st.one_of(st.sampled_from([limit - 1, limit, limit + 1, 2 * limit, 50, 100]),
                                     st.integers(1, 150))))
        if hits and draw(st.integers(0, 3)) > 0:
            ref = draw(st.sampled_from(hits))
            if draw(st.integers(0, 2)) == 0:
                size = ref[2] - ref[1]
            start = max(0, draw(st.sampled_from([ref[1], ref[1], ref[2] - limit - 1, ref[2] - limit,
                                                 ref[2] - limit + 1, ref[2], ref[1] + limit - size, ref[1] + 1,
                                                 ref[2] - size, ref[1] - size])))
        else:
            start = draw(st.integers(0, 400))
        if draw(st.integers(0, 3)) > 0:
            score = cutoffs[identifier] * draw(st.sampled_from([1.0, 1.5, 2.0, 2.0, 3.0]))
        else:
            score = float(draw(st.integers(5, 200)))
        hits.append([identifier, int(start), int(start + size), float(score)])
    return {"limit": limit, "cutoffs": cutoffs, "hits": hits}


@st.composite
def filter_specs(draw) -> dict:
    groups = [["K1", "K2", "K3"], ["A1", "A2"]]
    profiles = ["K1", "K2", "K3", "A1", "A2", "X1"]
    two = draw(st.integers(0, 3)) == 0
    hits: list = []
    for _ in range(draw(st.sampled_from([2, 3, 3, 4, 4, 5, 5, 6, 7, 8]))):
        profile = draw(st.sampled_from(profiles))
        cds = draw(st.integers(0, 1)) if two else 0
        size = draw(st.one_of(st.sampled_from([21, 22, 40, 60, 100]), st.integers(1, 120)))
        same_cds = [h for h in hits if h[0] == cds]
        if same_cds and draw(st.integers(0, 4)) > 0:
            ref = draw(st.sampled_from(same_cds))
            start = max(0, draw(st.sampled_from([ref[3] - 19, ref[3] - 20, ref[3] - 21, ref[3] - 22, ref[2], ref[2],
                                                 ref[2] + 21 - size, ref[2] + 22 - size, ref[3], ref[2] + 5])))
        else:
            start = draw(st.integers(0, 300))
        score = draw(st.one_of(st.sampled_from(SCORES), st.sampled_from(SCORES),
                               st.integers(1, 300).map(lambda v: v / 10)))
        # one profile never hits one protein twice at the same coordinates (HMMER reports distinct domains)
        while any(h[:2] == [cds, profile] and h[2] == start and h[3] == start + size for h in hits):
            start += 1
        hits.append([cds, profile, int(start), int(start + size), float(score)])
    return {"groups": groups, "hits": hits}


DYNAMIC_PROFILES = ["pa", "pb", "pc", "pd", "pe", "pf"]
# six profile names per case; besides the plain pool, names that only a careless sort key or text handling tells
# apart: equal up to case, prefixes of each other, '-' versus '_', digits versus letters
PROFILE_POOLS = {
    "plain": DYNAMIC_PROFILES,
    "case": ["PKS_ks", "PKS_KS", "pks_ks", "Pks_Ks", "mvd", "MVK"],
    "prefix": ["ks", "ksA", "ksAB", "ks-A", "ks_A", "ks1"],
    "mixed": ["a1", "A1", "a-1", "a_1", "a10", "a2"],
}
POOL_CHOICES = ["plain", "plain", "case", "case", "prefix", "mixed"]
# pairs of one pool that are easily confused; two cases in three of a non-plain pool make such a pair define the
# first rule together on one gene
CONFUSABLE = {
    "case": [["PKS_ks", "PKS_KS"], ["pks_ks", "PKS_KS"], ["Pks_Ks", "pks_ks"], ["mvd", "MVK"]],
    "prefix": [["ks", "ksA"], ["ks-A", "ks_A"], ["ksA", "ksAB"], ["ks", "ks1"]],
    "mixed": [["a1", "A1"], ["a-1", "a_1"], ["a1", "a10"], ["A1", "a2"]],
}
PAIR_TEMPLATES = ["{a} and {b}", "cds({a} and {b})", "{a} and {b} and {c}", "minimum(2, [{a}, {b}, {c}])",
                  "cds({a} and {b} and {c})", "({a} or {c}) and {b}"]
RULE_NAMES = ["T1PKS", "NRPS", "rule-c", "other_d"]
CONDITION_TEMPLATES = [
    "{a}", "{a}", "{a} and {b}", "{a} and {b}", "{a} or {b}", "{a} or {b}", "cds({a} and {b})",
    "cds({a} and {b} and {c})", "cds({a} or {b})", "minimum(2, [{a}, {b}, {c}])", "minimum(1, [{a}, {b}])",
    "{a} and not {b}", "({a} or {b}) and {c}", "minscore({a}, 20)", "{a} and {b} and {c}",
    "{a} and cds({b} and {c})", "minimum(3, [{a}, {b}, {c}, {d}])", "({a} and {b}) or ({c} and {d})",
]
EXTENDER_TEMPLATES = ["{a}", "{a}", "cds({a} or {b})", "cds({a} and {b})"]


def _fill(draw, template: str, pool: list) -> str:
    picks = draw(st.permutations(pool))
    return template.format(a=picks[0], b=picks[1], c=picks[2], d=picks[3])


@st.composite
def _genes(draw, cutoffs: list, max_genes: int = 8) -> tuple:
    """ simple genes walking along the record, gaps around the cutoffs; -> (genes, end of the last gene) """
    genes = []
    pos = draw(st.sampled_from([0, 0, 3, 30, 200]))
    gaps = [0, 3, 30, 300, 900] + [c + d for c in cutoffs for d in (-1, 0, 1)]
    for _ in range(draw(st.integers(2, max_genes))):
        size = 3 * draw(st.sampled_from([10, 20, 30, 60, 100]))
        if genes:
            pos += draw(st.sampled_from(gaps))
        start = max(0, pos)
        strand = draw(st.sampled_from([1, -1]))
        genes.append({"name": f"g{len(genes)}", "loc": {"parts": [[start, start + size]], "strand": strand}})
        if draw(st.integers(0, 4)) == 0:      # an antisense partner: same start and length, the other strand
            genes.append({"name": f"g{len(genes)}", "loc": {"parts": [[start, start + size]], "strand": -strand}})
        pos = start + size
        if draw(st.integers(0, 9)) == 0:      # the next gene overlaps this one
            pos -= draw(st.sampled_from([3, 9, size // 2]))
    return genes, max(g["loc"]["parts"][0][1] for g in genes)


@st.composite
def detect_specs(draw) -> dict:
    shared_cutoff = draw(st.sampled_from([30, 100, 300, 1000]))
    shared_neighbourhood = draw(st.sampled_from([0, 20, 100, 500]))
    theme = draw(st.sampled_from(POOL_CHOICES))
    pool = list(PROFILE_POOLS[theme])
    pair = draw(st.sampled_from(CONFUSABLE[theme])) if theme != "plain" and draw(st.integers(0, 2)) > 0 else None
    rules = []
    for index in range(draw(st.sampled_from([1, 2, 2, 3, 3, 4]))):
        if pair is not None and not rules:
            third = draw(st.sampled_from([name for name in pool if name not in pair]))
            conditions = draw(st.sampled_from(PAIR_TEMPLATES)).format(a=pair[0], b=pair[1], c=third)
        elif rules and draw(st.integers(0, 3)) == 0:
            conditions = rules[draw(st.integers(0, len(rules) - 1))]["conditions"]    # a second rule, same conditions
        else:
            conditions = _fill(draw, draw(st.sampled_from(CONDITION_TEMPLATES)), pool)
        own = draw(st.integers(0, 3)) == 0
        rule = {"name": RULE_NAMES[index], "category": draw(st.sampled_from(["catA", "catA", "catB"])),
                "cutoff": draw(st.sampled_from([30, 100, 300, 1000])) if own else shared_cutoff,
                "neighbourhood": draw(st.sampled_from([0, 20, 100, 500])) if own else shared_neighbourhood,
                "conditions": conditions}
        if rules and draw(st.integers(0, 4)) == 0:
            rule["superiors"] = [rules[draw(st.integers(0, len(rules) - 1))]["name"]]
        if draw(st.integers(0, 5)) == 0:
            rule["extenders"] = _fill(draw, draw(st.sampled_from(EXTENDER_TEMPLATES)), pool)
        rules.append(rule)
    cutoffs = sorted({rule["cutoff"] for rule in rules})
    genes, last_end = draw(_genes(cutoffs))
    circular = draw(st.booleans())
    tail = draw(st.sampled_from([0, 3, 30, 300, 2000] + [c + d for c in cutoffs for d in (-1, 0, 1)]))
    length = last_end + tail
    if circular and genes[0]["loc"]["parts"][0][0] >= 6 and tail >= 6 and draw(st.integers(0, 3)) == 0:
        pre = 3 * draw(st.integers(1, min(20, tail // 3 - 1))) if tail >= 9 else 3
        post = 3 * draw(st.integers(1, max(1, min(20, genes[0]["loc"]["parts"][0][0] // 3 - 1))))
        strand = draw(st.sampled_from([1, -1]))
        parts = [[length - pre, length], [0, post]]
        genes.append({"name": f"g{len(genes)}", "loc": {"parts": parts if strand == 1 else parts[::-1],
                                                        "strand": strand}})
    hits: dict = {}
    rich = draw(st.booleans())
    for gene in genes:
        chosen = draw(st.lists(st.sampled_from(pool), min_size=1 if rich else 0, max_size=5 if rich else 3,
                               unique=True))
        if chosen:
            hits[gene["name"]] = [[name, draw(st.sampled_from([10.0, 20.0, 20.0, 50.0])),
                                   draw(st.sampled_from([5, 10, 20]))] for name in chosen]
    if pair is not None:       # one gene carries both members of the pair
        name = draw(st.sampled_from(genes))["name"]
        present = {hit[0] for hit in hits.get(name, [])}
        for member in pair:
            if member not in present:
                hits.setdefault(name, []).append([member, 20.0, 10])
    subregions = []
    if draw(st.integers(0, 3)) == 0:
        for index in range(draw(st.integers(1, 2))):
            first = draw(st.integers(0, len(genes) - 1))
            last = draw(st.integers(first, len(genes) - 1))
            simple = [g for g in genes[first:last + 1] if len(g["loc"]["parts"]) == 1]
            if not simple:
                continue
            start = min(g["loc"]["parts"][0][0] for g in simple)
            end = max(g["loc"]["parts"][0][1] for g in simple)
            if subregions and draw(st.booleans()):
                start, end = subregions[0]["loc"]["parts"][0]
            subregions.append({"loc": {"parts": [[start, end]], "strand": 1}, "tool": draw(st.sampled_from(["t1", "t2"])),
                               "label": f"s{index}"})
    return {"L": length, "circular": circular, "genes": genes, "profiles": pool, "hits": hits,
            "rules": rules, "subregions": subregions}


PRODUCTS = ["T1PKS", "NRPS", "pa", "pb", "pc"]


@st.composite
def areas_specs(draw) -> dict:
    genes, last_end = draw(_genes([50, 200], max_genes=8))
    circular = draw(st.booleans())
    tail = draw(st.sampled_from([0, 3, 60, 300, 1500]))
    length = last_end + tail
    first_start = genes[0]["loc"]["parts"][0][0]
    protos: list = []
    for _ in range(draw(st.sampled_from([1, 2, 2, 3, 3, 4, 5, 6]))):
        product = draw(st.sampled_from(PRODUCTS))
        tool = draw(st.sampled_from(["rule-based-clusters", "rule-based-clusters", "other-tool"]))
        mode = draw(st.sampled_from(["fresh", "fresh", "copy", "copy", "copy_loc", "copy_core", "wrap", "near_tie",
                                     "near_tie"])) if protos else draw(st.sampled_from(["fresh", "fresh", "fresh", "wrap"]))
        if mode == "wrap" and not (circular and len(genes) >= 2):
            mode = "fresh"
        neighbourhood = draw(st.sampled_from([0, 30, 100, 400]))
        if mode in ("copy", "copy_loc", "copy_core"):
            ref = draw(st.sampled_from(protos))
            core = {"parts": [list(p) for p in ref["core"]["parts"]], "strand": 1}
            loc = {"parts": [list(p) for p in ref["loc"]["parts"]], "strand": 1}
            if len(core["parts"]) == 1 and mode != "copy":
                start, end = core["parts"][0]
                if mode == "copy_loc":       # same outer coordinates, a core inside the reference core
                    inner = [g for g in genes if len(g["loc"]["parts"]) == 1 and start <= g["loc"]["parts"][0][0]
                             and g["loc"]["parts"][0][1] <= end]
                    pick = draw(st.sampled_from(inner)) if inner else None
                    if pick is not None:
                        core = {"parts": [list(pick["loc"]["parts"][0])], "strand": 1}
                else:                        # same core, another neighbourhood
                    loc = {"parts": [[max(0, start - neighbourhood), min(length, end + neighbourhood)]], "strand": 1}
        elif mode == "near_tie":
            # a protocluster that all but one component of a tie-break key cannot tell from an earlier one:
            # same outer location, and  (a) same product, tool and core start, another core end
            #                           (b) same product and core, another tool
            #                           (c) same core start, another core end, another product
            ref = draw(st.sampled_from(protos))
            kind = draw(st.sampled_from(["core_end", "core_end", "tool", "product_core_end"]))
            core = {"parts": [list(p) for p in ref["core"]["parts"]], "strand": 1}
            loc = {"parts": [list(p) for p in ref["loc"]["parts"]], "strand": 1}
            neighbourhood = ref["neighbourhood"]
            if kind != "product_core_end":
                product = ref["product"]
            tool = ref["tool"]
            if kind == "tool":
                tool = "other-tool" if ref["tool"] != "other-tool" else "rule-based-clusters"
            else:
                # another end for the last part of the core: the end of a gene, or three bases less
                first_of_last, old_end = core["parts"][-1]
                limit = loc["parts"][-1][1]
                ends = sorted({g["loc"]["parts"][0][1] for g in genes if len(g["loc"]["parts"]) == 1
                               and first_of_last < g["loc"]["parts"][0][1] <= limit} - {old_end})
                if ends:
                    core["parts"][-1][1] = draw(st.sampled_from(ends))
                elif old_end - 3 > first_of_last:
                    core["parts"][-1][1] = old_end - 3
                else:
                    tool = "other-tool" if ref["tool"] != "other-tool" else "rule-based-clusters"
        elif mode == "wrap":
            # the last k genes and the first m genes, over the origin
            k = draw(st.integers(1, max(1, len(genes) // 2)))
            m = draw(st.integers(1, max(1, len(genes) - k)))
            k = min(k, len(genes) - m) or 1
            head_start = min(g["loc"]["parts"][0][0] for g in genes[-k:])
            tail_end = max(g["loc"]["parts"][0][1] for g in genes[:m])
            if tail_end + neighbourhood >= head_start - neighbourhood:
                neighbourhood = 0
            if tail_end >= head_start:
                mode = "fresh"
            else:
                core = {"parts": [[head_start, length], [0, tail_end]], "strand": 1}
                loc = {"parts": [[head_start - neighbourhood, length], [0, tail_end + neighbourhood]], "strand": 1}
        if mode == "fresh":
            first = draw(st.integers(0, len(genes) - 1))
            last = draw(st.integers(first, min(len(genes) - 1, first + 3)))
            start = min(g["loc"]["parts"][0][0] for g in genes[first:last + 1])
            end = max(g["loc"]["parts"][0][1] for g in genes[first:last + 1])
            core = {"parts": [[start, end]], "strand": 1}
            loc = {"parts": [[max(0, start - neighbourhood), min(length, end + neighbourhood)]], "strand": 1}
        # no exact twins (same product, tool, core and location: nothing in any output tells them apart); outside the
        # near-tie family two protoclusters of one product do not share a location either
        if mode != "near_tie":
            taken = {p["product"] for p in protos if p["loc"]["parts"] == loc["parts"]}
            if product in taken:
                free = [name for name in PRODUCTS if name not in taken]
                if not free:
                    continue
                product = free[0]
        if any(p["product"] == product and p["tool"] == tool and p["core"]["parts"] == core["parts"]
               and p["loc"]["parts"] == loc["parts"] for p in protos):
            continue
        protos.append({"core": core, "loc": loc, "product": product, "category": f"cat_{product}", "tool": tool,
                       "cutoff": draw(st.sampled_from([10, 50, 200])), "neighbourhood": neighbourhood})
    del first_start
    # defining genes: genes inside a core may be 'core' for that product (shared genes make chemical hybrids)
    share = draw(st.sampled_from([0, 3, 6, 9]))
    for gene in genes:
        core_for = []
        start, end = gene["loc"]["parts"][0]
        for proto in protos:
            inside = any(part[0] <= start and end <= part[1] for part in proto["core"]["parts"])
            if inside and proto["product"] not in core_for and draw(st.integers(0, 9)) < share:
                core_for.append(proto["product"])
        gene["core_for"] = core_for
    subregions = []
    if draw(st.integers(0, 2)) == 0:
        for index in range(draw(st.integers(1, 3))):
            if protos and draw(st.booleans()):
                ref = draw(st.sampled_from(protos))
                if len(ref["loc"]["parts"]) > 1:
                    continue
                start, end = ref["loc"]["parts"][0]
            elif subregions and draw(st.booleans()):
                start, end = subregions[0]["loc"]["parts"][0]
            else:
                first = draw(st.integers(0, len(genes) - 1))
                last = draw(st.integers(first, len(genes) - 1))
                start = min(g["loc"]["parts"][0][0] for g in genes[first:last + 1])
                end = max(g["loc"]["parts"][0][1] for g in genes[first:last + 1])
            subregions.append({"loc": {"parts": [[start, end]], "strand": 1},
                               "tool": draw(st.sampled_from(["t1", "t2"])), "label": f"s{index % 2}"})
    return {"L": length, "circular": circular, "genes": genes, "protoclusters": protos, "subregions": subregions,
            "ballast": draw(st.integers(0, 7))}


# =========================================================================== driver

def run(ctx) -> None:
    global _POOL_SEEDS  # pylint: disable=global-statement
    seeds = _seeds_for(ctx.seed, ctx.pick(2, 8))
    if _POOL is not None and [child.hashseed for child in _POOL.children] != seeds:
        _close_pool()
    _POOL_SEEDS = seeds
    try:
        # shards=1: the pool of children is the parallelism; nothing is forked while the pipes are open
        ctx.hyp("refine", refine_specs(), max_examples=ctx.pick(350, 4000), shards=1)
        ctx.hyp("hmmer", hmmer_specs(), max_examples=ctx.pick(100, 1200), shards=1)
        ctx.hyp("filter", filter_specs(), max_examples=ctx.pick(200, 2000), shards=1)
        ctx.hyp("detect", detect_specs(), max_examples=ctx.pick(170, 2500), shards=1)
        ctx.hyp("areas", areas_specs(), max_examples=ctx.pick(160, 3000), shards=1)
        ctx.extra["cases_showing_only_known_findings"] = {
            sub: {"cases": stats["cases"], "distinct_nontrivial": len(stats["nontrivial"]),
                  "classes": dict(sorted(stats["classes"].items()))}
            for sub, stats in _KNOWN_ONLY.items()}
        ctx.extra["bounds"] = {
            "hash_seeds": seeds,
            "runs_per_case": len(seeds) * REPEATS,
            "ballast": "child i keeps i + 5 * repeat objects of every small-object size class alive before a run",
            "limit": "a sample of hash seeds and heap layouts, not all 2**32 seeds / all layouts",
        }
    finally:
        _close_pool()
