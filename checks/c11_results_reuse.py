""" C11 - reusing saved module results reproduces the original results """

from __future__ import annotations

import os
import shutil
import tempfile
import types

from hypothesis import strategies as st

from vlib import gen
from vlib.build import make_cds, make_record
from vlib.runner import Violation

PROPERTY_ID = "C11"
LEVEL = "exploration"
RULE = ("One case = one results object built from generated content by the module's own code, plus a generated "
        "history of 1-4 steps; every step takes the JSON text (through antismash.common.json) saved by the latest "
        "generation, before ('pre') or after ('post') the results were applied to their record, optionally changes "
        "one setting (schema_version field, record id, strictness, enabled rules, fungal multipliers, saved HMMer "
        "thresholds, TTA threshold), regenerates on a fresh copy of the record at one of the entry points "
        "(Class.from_json, module.regenerate_previous_results, main.run_module) and applies the result. Classes: "
        "rules = RuleDetectionResults/HMMDetectionResults from detect_protoclusters_and_signatures with dynamic "
        "profiles only (1-4 rules named after shipped rules, cds/minimum/minscore/not conditions, SUPERIORS, "
        "EXTENDERS, existing subregions, line and ring records with multi-exon and origin-spanning genes); "
        "sideload = SideloadedResults through load_single_record_annotations (schema-validated JSON file, manual "
        "area, CDS markers, details, circular wrap); nrps = NRPSPKSDomains through generate_domains with the three "
        "hmmscan front ends replaced by generated hits (module templates cut across genes, KS subtypes as nested "
        "internal hits, motifs); hmmer = HmmerResults/TIGRFamResults through build_hits on generated HSPs, judged at "
        "full_hmmer / cluster_hmmer / tigrfam and refilter; hmmresult = HMMResult trees of depth <= 4; tta = "
        "tta.detect on records with regions and a sequence whose GC content is drawn around the threshold. "
        "Non-trivial: the results hold a nested structure (protocluster with >= 2 CDS results, a definition set "
        "with >= 2 profiles, module with >= 3 components, multi-gene module, HMMResult with internal hits, >= 2 "
        "sideloaded areas or one with details, >= 2 hits, >= 1 TTA codon) or a setting changes within the history; "
        "distinct = sha1 of the canonical spec.")
ASSUMPTIONS = [
    "byte identity is judged on antismash.common.json.dumps(results.to_json()), the text the results file holds",
    "'the same record' is a second record built from the same spec (same id, sequence, genes, pre-existing areas); "
    "the record's own JSON/GenBank round trip is C10's",
    "side effects are compared on serialiser.record_to_json(record.to_biopython()) plus gather_record_areas after "
    "the calls main.run_detection / analyse_record make for that module (annotate, add_to_record or "
    "get_predicted_*, then create_candidate_clusters and create_regions); an exception while applying must be the "
    "same exception on both copies",
    "JSON saved before and after the results were applied to a record are both legal inputs; regenerated results are "
    "compared with the original at the same stage",
    "a changed setting may be answered by None, by an exception, or - only where the module documents that it "
    "keeps the saved setting (strictness with an unchanged rule set, multipliers of a non-fungal run) - by results "
    "identical to the saved ones; a changed schema version, record id, enabled rule set or fungal multiplier must "
    "be refused; narrower HMMer thresholds may trim hits (documented refilter), laxer ones must be refused; a "
    "changed TTA threshold may also give exactly what tta.detect gives under the new threshold",
    "detection that itself fails on the generated record (open C03/C06/C14 findings) is not a C11 case",
    "the harness runs with a fixed PYTHONHASHSEED (the runner sets 0): the order in which the code under test "
    "iterates its own sets is then a pure function of the spec",
]

_STATE: dict = {}


# --------------------------------------------------------------------------- shared helpers

def _ajson():
    from antismash.common import json as ajson
    return ajson


def _dumps(obj) -> str:
    return _ajson().dumps(obj)


def _loads(text: str):
    return _ajson().loads(text)


def _first_diff(one, two, path: str = "") -> list:
    """ path and values of the first difference between two JSON values """
    if type(one) is not type(two):
        return [path, repr(one)[:120], repr(two)[:120]]
    if isinstance(one, dict):
        if list(one) != list(two):
            return [path + "{keys}", list(one)[:12], list(two)[:12]]
        for key in one:
            found = _first_diff(one[key], two[key], f"{path}/{key}")
            if found:
                return found
        return []
    if isinstance(one, list):
        if len(one) != len(two):
            return [path + "{len}", len(one), len(two)]
        for index, (left, right) in enumerate(zip(one, two)):
            found = _first_diff(left, right, f"{path}[{index}]")
            if found:
                return found
        return []
    if one != two:
        return [path, repr(one)[:120], repr(two)[:120]]
    return []


def _text_diff(got: str, want: str) -> list:
    return _first_diff(_loads(got), _loads(want))


def _options(extra: list):
    """ a fresh Config singleton (the parser is built once per process) """
    from antismash.config import build_config, destroy_config
    if "parser" not in _STATE:
        from antismash.config.args import build_parser
        from antismash.main import get_all_modules
        _STATE["parser"] = build_parser(from_config_file=True, modules=get_all_modules())
    destroy_config()
    args = ["--cpus", "1", "--minimal", "--genefinding-tool", "none"] + list(extra)
    return build_config(args, parser=_STATE["parser"], isolated=True)


def _cleanup() -> None:
    from antismash.config import destroy_config
    destroy_config()


def _snapshot(record) -> str:
    """ everything a record holds, as the results file would store it (without the sequence) """
    from antismash.common import serialiser
    data = serialiser.record_to_json(record.to_biopython())
    data.pop("seq")
    data["areas"] = serialiser.gather_record_areas(record)
    return _dumps(data)


def _guard(func) -> tuple:
    """ ("ok", value) or ("exc", type name, message) for calls whose failure must merely be reproduced """
    try:
        return ("ok", func())
    except Violation:
        raise
    except Exception as err:  # pylint: disable=broad-except
        return ("exc", type(err).__name__, str(err)[:200])


class _Deferred:
    """ differences that belong to a listed root cause are kept back until everything else was compared,
        so that such a case still searches for other violations """
    def __init__(self) -> None:
        self.first = None

    def note(self, clause: str, detail: dict) -> None:
        if self.first is None:
            self.first = (clause, detail)

    def raise_if_any(self) -> None:
        if self.first is not None:
            raise Violation(self.first[0], self.first[1])


def _compare_text(label: str, got: str, want: str, where: dict, deferred: _Deferred = None,
                  normalise=None, known_clause: str = "") -> None:
    if got == want:
        return
    if normalise is not None and deferred is not None:
        if normalise(_loads(got)) == normalise(_loads(want)):
            deferred.note(known_clause, dict(where, difference=_text_diff(got, want)))
            return
    raise Violation(label, dict(where, difference=_text_diff(got, want)))


class _no_external_tools:  # pylint: disable=invalid-name
    """ while main.run_module is driven: a module that discards the saved results goes on to run its analysis,
        which needs HMMER; the check never runs external binaries, whether or not the machine has them """
    def __enter__(self) -> None:
        from unittest import mock
        from antismash.common import subprocessing
        from antismash.common.hmm_rule_parser import cluster_prediction

        def unavailable(*_args, **_kwargs):
            raise RuntimeError("external tools are not available to this check")
        self.patches = [mock.patch.object(subprocessing, "run_hmmscan", unavailable),
                        mock.patch.object(subprocessing, "run_hmmsearch", unavailable),
                        mock.patch.object(cluster_prediction, "run_hmmsearch", unavailable)]
        for patch in self.patches:
            patch.start()

    def __exit__(self, *_exc) -> bool:
        for patch in self.patches:
            patch.stop()
        return False


def _other_content(spec: dict, index: int) -> dict:
    """ the spec of 'another record with the same id': the gene at `index` (modulo) carries another name, everything
        else is the same - for a module, a record that lacks one of the genes its saved results may refer to """
    import copy
    other = copy.deepcopy(spec)
    gene = other["genes"][index % len(other["genes"])]
    gene["name"] = gene["name"] + "_other"
    return other


def _regenerate_again(regenerate, data, first_text: str, save, where: dict, classes: set) -> None:
    """ The parsed JSON `data` was already used for one regeneration; a second regeneration from that very object (a
        retry, a second consumer: tfbs_finder.regenerate_previous_results itself calls from_json twice) may refuse,
        but it must never give results that save differently from the first ones. Several shipped from_json methods
        consume their argument (`data.pop(...)`) and then refuse the second time; that is recorded as a class. """
    outcome = regenerate(data)
    if _refused(outcome):
        classes.add("second_regeneration_refused")
        return
    classes.add("second_regeneration_same")
    text = save(outcome[1])
    if text != first_text:
        raise Violation("second_regeneration_differs", dict(where, difference=_text_diff(text, first_text)))


def _refused(outcome: tuple) -> bool:
    return outcome[0] == "exc" or (outcome[0] == "ok" and outcome[1] is None)


# =========================================================================== rules / hmm_detection

RULE_PROFILES = ["PKS_KS", "PKS_AT", "ene_KS", "mod_KS", "hyb_KS", "itr_KS", "tra_KS", "Condensation",
                 "AMP-binding", "PP-binding"]
CONDITION_SHAPES = [
    ("{0}", 1), ("{0} and {1}", 2), ("{0} or {1}", 2), ("cds({0} and {1})", 2),
    ("cds({0} and ({1} or {2} or {3}))", 4), ("minimum(2, [{0}, {1}, {2}])", 3), ("{0} and not {1}", 2),
    ("minscore({0}, 50)", 1), ("({0} or {1}) and {2}", 3), ("{0} and {1} and {2} and {3}", 4),
    ("cds({0} and {1} and {2}) or {3}", 4), ("{0} or {1} or {2} or {3} or {4} or {5}", 6),
    ("cds({0} and {1}) and ({2} or {3} or {4})", 5),
]
EXTENDER_SHAPES = [("{0}", 1), ("cds({0} and {1})", 2), ("cds({0} or {1})", 2)]
HMM_LEVELS = ("rule", "hmm", "module", "main")


def _rules_options(opt: dict):
    args = ["--taxon", opt["taxon"], "--hmmdetection-strictness", opt["strictness"],
            "--hmmdetection-fungal-cutoff-multiplier", repr(float(opt["mult"][0])),
            "--hmmdetection-fungal-neighbourhood-multiplier", repr(float(opt["mult"][1]))]
    if opt.get("limit"):
        args += ["--hmmdetection-limit-to-rule-names", ",".join(opt["limit"])]
    return _options(args)


def _rules_record(spec: dict, record_id: str):
    from antismash.common.secmet.features import SubRegion
    from vlib.build import to_loc
    record = make_record(spec["L"], spec["circular"], record_id=record_id)
    for gene in spec["genes"]:
        record.add_cds_feature(make_cds(gene["loc"], gene["name"]))
    for index, area in enumerate(spec.get("subregions") or []):
        record.add_subregion(SubRegion(to_loc({"parts": area["parts"], "strand": 1}), tool="verif",
                                       label=f"sub{index}"))
    return record


def _rules_ruleset(spec: dict, options):
    from antismash.common.hmm_rule_parser import cluster_prediction, rule_parser
    from antismash.common.hmm_rule_parser.structures import DynamicHit, DynamicProfile, Multipliers
    lines = []
    for rule in spec["rules"]:
        lines.append(f"RULE {rule['name']}\n  CATEGORY {rule['category']}")
        if rule.get("superiors"):
            lines.append("  SUPERIORS " + ", ".join(rule["superiors"]))
        lines.append(f"  CUTOFF 1\n  NEIGHBOURHOOD 1\n  CONDITIONS {rule['conditions']}")
        if rule.get("extenders"):
            lines.append(f"  EXTENDERS {rule['extenders']}")
    categories = {rule["category"] for rule in spec["rules"]}
    parsed = rule_parser.Parser("\n".join(lines), set(RULE_PROFILES), categories).rules
    for rule, real in zip(spec["rules"], parsed):
        real.cutoff = rule["cutoff"]
        real.neighbourhood = rule["neighbourhood"]

    def maker(profile: str):
        def find(_record, _hmmer_hits):
            found = {}
            for gene in spec["genes"]:
                hit = (spec["hits"].get(gene["name"]) or {}).get(profile)
                if hit is not None:
                    found[gene["name"]] = [DynamicHit(gene["name"], profile, float(hit[0]), float(hit[1]))]
            return found
        return DynamicProfile(profile, f"generated profile {profile}", find)

    multipliers = Multipliers()
    if options.taxon == "fungi":     # as hmm_detection.get_ruleset does
        multipliers = Multipliers(options.hmmdetection_fungal_cutoff_multiplier,
                                  options.hmmdetection_fungal_neighbourhood_multiplier)
    return cluster_prediction.Ruleset(tuple(parsed), {}, "", categories, "rule-based-clusters",
                                      multipliers=multipliers,
                                      dynamic_profiles={name: maker(name) for name in RULE_PROFILES},
                                      equivalence_groups=[])


def _sorted_definitions(data):
    """ normaliser: the order of the profile names inside definition_domains lists (and of the CORE gene
        functions derived from them) is the listed root cause """
    if isinstance(data, dict):
        out = {}
        for key, value in data.items():
            if key == "definition_domains" and isinstance(value, dict):
                out[key] = {name: sorted(names) for name, names in value.items()}
            elif key == "gene_functions" and isinstance(value, list):
                out[key] = sorted(value)
            else:
                out[key] = _sorted_definitions(value)
        return out
    if isinstance(data, list):
        return [_sorted_definitions(item) for item in data]
    return data


def _rules_apply(results, record) -> tuple:
    """ what main.run_detection does with the results of an AREA_FORMATION module """
    def work():
        for protocluster in results.get_predicted_protoclusters():
            record.add_protocluster(protocluster)
        for subregion in results.get_predicted_subregions():
            record.add_subregion(subregion)
        return None
    return _guard(work)[:2]


def _rules_regenerate(level: str, data: dict, record, options) -> tuple:
    """ -> ("ok", HMMDetectionResults or None) | ("exc", ...) ; CDS features annotated as the pipeline would """
    from antismash import main
    from antismash.common.hmm_rule_parser.cluster_prediction import RuleDetectionResults
    from antismash.detection import hmm_detection

    def work():
        if level == "rule":
            inner = RuleDetectionResults.from_json(data["rule_results"], record)
            if inner is None:
                return None
            inner.annotate_cds_features()
            return hmm_detection.HMMDetectionResults(record.id, inner, data["enabled_types"], data["strictness"])
        if level == "hmm":
            results = hmm_detection.HMMDetectionResults.from_json(data, record)
            if results is not None:
                results.rule_results.annotate_cds_features()
            return results
        if level == "module":
            return hmm_detection.regenerate_previous_results(data, record, options)
        options.all_enabled_modules = [hmm_detection]
        module_results = {hmm_detection.__name__: data}
        with _no_external_tools():
            main.run_module(record, hmm_detection, options, module_results, {})
        return module_results.get(hmm_detection.__name__)
    return _guard(work)


def _rules_view(results, level: str) -> str:
    if level == "rule":
        return _dumps(results.rule_results.to_json())
    return _dumps(results.to_json())


def check_rules(spec: dict) -> dict:
    try:
        return _check_rules(spec)
    finally:
        _cleanup()


def _check_rules(spec: dict) -> dict:
    from antismash.common.hmm_rule_parser.cluster_prediction import detect_protoclusters_and_signatures
    from antismash.detection import hmm_detection

    base_opt = spec["options"]
    options = _rules_options(base_opt)
    record = _rules_record(spec, spec["rid"])
    ruleset = _rules_ruleset(spec, options)
    made = _guard(lambda: detect_protoclusters_and_signatures(record, ruleset))
    if made[0] != "ok":
        return {"nontrivial": False, "classes": ["detection_failed_" + made[1]]}
    rule_results = made[1]
    rule_results.annotate_cds_features()
    enabled = list(hmm_detection.get_ruleset(options).get_rule_names())     # as run_on_record does
    original = hmm_detection.HMMDetectionResults(record.id, rule_results, enabled, options.hmmdetection_strictness)

    views = {}
    for level in ("rule", "hmm"):
        views[("pre", level)] = _rules_view(original, level)
    applied0 = _rules_apply(original, record)
    for level in ("rule", "hmm"):
        views[("post", level)] = _rules_view(original, level)
    snap0 = _guard(lambda: _snapshot(record))

    deferred = _Deferred()
    current = {"pre": views[("pre", "hmm")], "post": views[("post", "hmm")]}
    classes = set()
    changed = False
    repeated = False
    for number, step in enumerate(spec["steps"]):
        level = step["level"]
        view_level = "rule" if level == "rule" else "hmm"
        data = _loads(current[step["src"]])
        change = step.get("change")
        opt = dict(base_opt)
        record_id = spec["rid"]
        strict = False
        if change:
            changed = True
            kind = change["kind"]
            classes.add(f"change_{kind}")
            if kind == "schema_rule":
                strict = True
                if change["value"] == "missing":
                    data["rule_results"].pop("schema_version")
                else:
                    data["rule_results"]["schema_version"] = change["value"]
            elif kind == "schema_hmm":
                strict = True
                if change["value"] == "missing":
                    data.pop("schema_version")
                else:
                    data["schema_version"] = change["value"]
            elif kind == "record_id":
                strict = True
                record_id = change["value"]
            elif kind == "strictness":
                opt["strictness"] = change["value"]
            elif kind == "limit":
                strict = True
                opt["limit"] = change["value"]
            elif kind == "multipliers":
                strict = base_opt["taxon"] == "fungi"
                opt["mult"] = change["value"]
            elif kind != "other_content":
                raise AssertionError(kind)
        other = bool(change) and change["kind"] == "other_content"
        options = _rules_options(opt)
        fresh = _rules_record(_other_content(spec, change["value"]) if other else spec, record_id)
        where = {"step": number, "level": level, "from": step["src"], "change": change}
        outcome = _rules_regenerate(level, data, fresh, options)
        classes.add(f"level_{level}")
        if other:
            # same id, other content (a gene of the saved results may be missing): refusal, or results that save
            # exactly what was loaded - never a silent subset
            if _refused(outcome):
                classes.add("refused")
                continue
            _compare_text("other_record_partly_reused", _rules_view(outcome[1], view_level),
                          views[("pre", view_level)], where)
            classes.add("other_content_not_consulted")
            continue
        if change:
            if _refused(outcome):
                classes.add("refused")
                continue
            if strict:
                raise Violation("changed_setting_reused", dict(where, returned=type(outcome[1]).__name__))
            classes.add("kept_saved_setting")
        elif outcome[0] == "exc":
            raise Violation("regenerate_failed", dict(where, exception=outcome[1], message=outcome[2]))
        elif outcome[1] is None:
            raise Violation("regenerate_discarded", where)
        again = outcome[1]
        if not isinstance(again, hmm_detection.HMMDetectionResults):
            raise Violation("regenerate_type", dict(where, returned=type(again).__name__))
        pre_text = _dumps(again.to_json())
        if not change and not repeated:
            repeated = True
            _regenerate_again(lambda used: _rules_regenerate(level, used, _rules_record(spec, record_id), options),
                              data, pre_text, lambda results: _dumps(results.to_json()), where, classes)
        _compare_text("json_identity", _rules_view(again, view_level), views[("pre", view_level)],
                      dict(where, stage="pre"), deferred, _sorted_definitions, "json_definition_order")
        applied = _rules_apply(again, fresh)
        if applied != applied0:
            raise Violation("apply_outcome", dict(where, original=applied0, regenerated=applied))
        post_text = _dumps(again.to_json())
        _compare_text("json_identity", _rules_view(again, view_level), views[("post", view_level)],
                      dict(where, stage="post"), deferred, _sorted_definitions, "json_definition_order")
        snap = _guard(lambda: _snapshot(fresh))
        if snap[0] != snap0[0]:
            raise Violation("effects", dict(where, original=snap0[:2] if snap0[0] == "exc" else "ok",
                                            regenerated=snap[:2] if snap[0] == "exc" else "ok"))
        if snap[0] == "ok":
            _compare_text("effects", snap[1], snap0[1], where, deferred, _sorted_definitions,
                          "effects_definition_order")
        # the next step starts from what this generation saved
        current = {"pre": pre_text, "post": post_text}
    clusters = list(rule_results.cds_by_cluster.values())
    multi_def = any(len(names) > 1 for group in clusters + [rule_results.cdses_outside_clusters]
                    for cds_result in group for names in cds_result.definition_domains.values())
    nested = any(len(group) >= 2 for group in clusters)
    classes.add(f"protoclusters_{min(len(clusters), 3)}")
    classes.add(f"steps_{len(spec['steps'])}")
    classes.add("circular" if spec["circular"] else "linear")
    if rule_results.cdses_outside_clusters:
        classes.add("outside_protoclusters")
    if multi_def:
        classes.add("definition_set_multi")
    if any(len(pc.location.parts) > 1 for pc in rule_results.protoclusters):
        classes.add("origin_spanning_protocluster")
    if applied0[0] == "exc":
        classes.add("apply_raises_" + str(applied0[1]))
    deferred.raise_if_any()
    return {"nontrivial": nested or multi_def or changed, "classes": sorted(classes)}


# --------------------------------------------------------------------------- generator: rules

def shipped_rules() -> dict:
    """ {strictness: [[name, category], ...]} of the shipped rule files (cumulative per level) """
    if "shipped" not in _STATE:
        from antismash.detection import hmm_detection
        _STATE["shipped"] = {level: [[rule.name, rule.category] for rule in hmm_detection._get_rules(level)]
                             for level in ("strict", "relaxed", "loose")}
    return _STATE["shipped"]


def rule_history(levels: tuple, changes: list, max_steps: int = 4):
    return simple_history(levels, changes, max_steps=max_steps, change_odds=3)


@st.composite
def rules_specs(draw) -> dict:
    shipped = shipped_rules()
    strictness = draw(st.sampled_from(["strict", "relaxed", "relaxed", "loose"]))
    available = shipped[strictness]
    taxon = draw(st.sampled_from(["bacteria", "fungi"]))
    mult_values = [0.5, 1.0, 1.5, 2.0]
    mult = [draw(st.sampled_from(mult_values)), draw(st.sampled_from(mult_values))]
    limit = []
    if draw(st.integers(0, 3)) == 0:
        limit = sorted({name for name, _ in draw(st.lists(st.sampled_from(available), min_size=2, max_size=6))})
    pool = [pair for pair in available if not limit or pair[0] in limit]
    chosen = draw(st.lists(st.sampled_from(pool), min_size=1, max_size=min(4, len(pool)),
                           unique_by=lambda pair: pair[0]))
    cutoff_choices = [5, 20, 60, 150]
    rules = []
    for index, (name, category) in enumerate(chosen):
        shape, count = draw(st.sampled_from(CONDITION_SHAPES))
        names = draw(st.lists(st.sampled_from(RULE_PROFILES), min_size=count, max_size=count, unique=True))
        rule = {"name": name, "category": category, "conditions": shape.format(*names),
                "profiles": names,
                "cutoff": draw(st.sampled_from(cutoff_choices)),
                "neighbourhood": draw(st.sampled_from([0, 10, 40, 100]))}
        if index and draw(st.integers(0, 3)) == 0:
            rule["superiors"] = sorted({rules[i]["name"] for i in
                                        draw(st.lists(st.integers(0, index - 1), min_size=1, max_size=2))})
        if draw(st.integers(0, 3)) == 0:
            ext_shape, ext_count = draw(st.sampled_from(EXTENDER_SHAPES))
            ext_names = draw(st.lists(st.sampled_from(RULE_PROFILES), min_size=ext_count, max_size=ext_count,
                                      unique=True))
            rule["extenders"] = ext_shape.format(*ext_names)
            rule["profiles"] = names + ext_names
        rules.append(rule)
    circular = draw(st.booleans())
    length = draw(st.integers(400, 2500))
    genes = draw(gen.gene_layout(length, circular, max_genes=9, min_genes=2, size_hint=60,
                                 gap_choices=(4, 5, 19, 20, 59, 60)))
    scores = [10.0, 49.5, 50.0, 75.25, 1234.5]
    evalues = [1e-30, 2.5e-07, 0.001, 1.0]
    hits = {}
    for gene in genes:
        mode = draw(st.integers(0, 9))
        wanted = []
        if mode < 6:
            rule = draw(st.sampled_from(rules))
            wanted = list(rule["profiles"])
            if mode < 2 and len(wanted) > 1:
                wanted = wanted[:draw(st.integers(1, len(wanted) - 1))]
        if mode >= 4:
            wanted += draw(st.lists(st.sampled_from(RULE_PROFILES), max_size=3))
        found = {}
        for profile in wanted:
            found[profile] = [draw(st.sampled_from(scores)), draw(st.sampled_from(evalues))]
        if found:
            hits[gene["name"]] = found
    subregions = []
    for _ in range(draw(st.sampled_from([0, 0, 1, 1, 2]))):
        bounds = draw(_area_around(genes, length, False))
        if bounds is not None and bounds[0] < bounds[1]:
            subregions.append({"parts": [[bounds[0], bounds[1]]]})
    options = {"taxon": taxon, "strictness": strictness, "mult": mult, "limit": limit}
    # ---- settings that can change inside the history
    other_strictness = [level for level in ("strict", "relaxed", "loose") if level != strictness]
    changes = [
        {"kind": "schema_rule", "values": [3, 5, 1, 0, "4", "missing", None], "levels": HMM_LEVELS},
        {"kind": "schema_hmm", "values": [1, 3, 0, "2", "missing", None], "levels": ("hmm", "module", "main")},
        {"kind": "record_id", "values": ["rec2", "rec1 ", "REC1"], "levels": ("hmm", "module", "main")},
        {"kind": "strictness", "values": other_strictness, "levels": ("module", "main")},
        {"kind": "other_content", "values": list(range(len(genes))), "levels": HMM_LEVELS},
    ]
    names_now = {name for name, _ in pool}
    alternatives = []
    for size in (1, 3):
        candidate = sorted({name for name, _ in draw(st.lists(st.sampled_from(available), min_size=size,
                                                                max_size=size))})
        if set(candidate) != names_now:
            alternatives.append(candidate)
    if limit:
        alternatives.append([])        # no limit any more
    if alternatives:
        changes.append({"kind": "limit", "values": alternatives, "levels": ("module", "main")})
    other_mult = [[c, n] for c in mult_values for n in mult_values if c != mult[0] or n != mult[1]]
    changes.append({"kind": "multipliers", "values": other_mult, "levels": ("module", "main")})
    steps = draw(rule_history(HMM_LEVELS, changes))
    for rule in rules:
        rule.pop("profiles")
    return {"L": length, "circular": circular, "genes": genes, "hits": hits, "rules": rules,
            "subregions": subregions, "options": options, "rid": "rec1", "steps": steps}




# =========================================================================== generic history driver

def _run_history(spec: dict, *, original_texts: dict, snapshot0: tuple, applied0: tuple, build_record,
                 regenerate, apply, save, mutate, classes: set, extra_compare=None, build_other=None) -> bool:
    """ The save -> (change) -> regenerate -> apply loop shared by the simple result classes.

        original_texts: {"pre": text, "post": text} of the original results
        build_record(record_id) -> fresh record;  mutate(step, data, env) -> True when refusal is mandatory
        regenerate(level, data, record, env) -> _guard tuple;  apply(results, record) -> _guard tuple
        save(results) -> text.  Returns True when a setting changed somewhere in the history.
    """
    current = dict(original_texts)
    changed = False
    repeated = False
    for number, step in enumerate(spec["steps"]):
        data = _loads(current[step["src"]])
        change = step.get("change")
        env = {"rid": spec["rid"]}
        strict = False
        other = bool(change) and change["kind"] == "other_content"
        if change:
            changed = True
            classes.add(f"change_{change['kind']}")
            if not other:
                strict = mutate(change, data, env)
        fresh = build_other(env["rid"], change["value"]) if other else build_record(env["rid"])
        where = {"step": number, "level": step["level"], "from": step["src"], "change": change}
        outcome = regenerate(step["level"], data, fresh, env)
        classes.add(f"level_{step['level']}")
        if other:
            # same id, other content: refusal, or results that save exactly what was loaded - never a silent subset
            if _refused(outcome):
                classes.add("refused")
                continue
            _compare_text("other_record_partly_reused", save(outcome[1]), original_texts["pre"], where)
            classes.add("other_content_not_consulted")
            continue
        if change:
            if _refused(outcome):
                classes.add("refused")
                continue
            if strict:
                raise Violation("changed_setting_reused", dict(where, returned=type(outcome[1]).__name__))
            classes.add("kept_saved_setting")
        elif outcome[0] == "exc":
            raise Violation("regenerate_failed", dict(where, exception=outcome[1], message=outcome[2]))
        elif outcome[1] is None:
            raise Violation("regenerate_discarded", where)
        again = outcome[1]
        pre_text = save(again)
        _compare_text("json_identity", pre_text, original_texts["pre"], dict(where, stage="pre"))
        if not change and not repeated:
            repeated = True
            level, rid = step["level"], env["rid"]
            _regenerate_again(lambda used: regenerate(level, used, build_record(rid), env), data, pre_text, save,
                              where, classes)
        if extra_compare is not None:
            extra_compare(again, where)
        applied = apply(again, fresh)[:2]
        if applied != applied0:
            raise Violation("apply_outcome", dict(where, original=applied0, regenerated=applied))
        post_text = save(again)
        _compare_text("json_identity", post_text, original_texts["post"], dict(where, stage="post"))
        snap = _guard(lambda: _snapshot(fresh))
        if snap[0] != snapshot0[0]:
            raise Violation("effects", dict(where, original=snapshot0[:2] if snapshot0[0] == "exc" else "ok",
                                            regenerated=snap[:2] if snap[0] == "exc" else "ok"))
        if snap[0] == "ok":
            _compare_text("effects", snap[1], snapshot0[1], where)
        current = {"pre": pre_text, "post": post_text}
    classes.add(f"steps_{len(spec['steps'])}")
    return changed


def _schema_and_id_mutator(schema_key: str, id_key: str):
    def mutate(change: dict, data: dict, env: dict) -> bool:
        if change["kind"] == "schema":
            if change["value"] == "missing":
                data.pop(schema_key)
            else:
                data[schema_key] = change["value"]
        elif change["kind"] == "record_id":
            env["rid"] = change["value"]
        else:
            raise AssertionError(change["kind"])
        return True
    return mutate


@st.composite
def simple_history(draw, levels: tuple, changes: list, max_steps: int = 4, change_odds: int = 3) -> list:
    """ 1-4 steps; a step first decides whether a setting changes and which one, then takes an entry point at
        which that setting is consulted """
    steps = []
    for _ in range(draw(st.sampled_from([1, 2, 2, 3, 3, 4, 4][:2 * max_steps - 1]))):
        change = None
        allowed = levels
        if changes and draw(st.integers(0, change_odds - 1)) == 0:
            picked = draw(st.sampled_from(changes))
            change = {"kind": picked["kind"], "value": draw(st.sampled_from(picked["values"]))}
            allowed = picked.get("levels", levels)
        steps.append({"src": draw(st.sampled_from(["pre", "post", "post"])), "level": draw(st.sampled_from(allowed)),
                      "change": change})
    return steps


# =========================================================================== sideloader

SIDELOAD_LEVELS = ("class", "module", "main")


def _sideload_record(spec: dict, record_id: str):
    record = make_record(spec["L"], spec["circular"], record_id=record_id)
    record.name = spec.get("name") or record_id
    for gene in spec["genes"]:
        record.add_cds_feature(make_cds(gene["loc"], gene["name"]))
    return record


def _sideload_original(spec: dict, record):
    from antismash.common import json as ajson
    from antismash.detection.sideloader import general
    from antismash.detection.sideloader.data_structures import SideloadSimple
    scratch = tempfile.mkdtemp(prefix="verif_c11_")
    try:
        paths = []
        for index, content in enumerate(spec["files"]):
            path = os.path.join(scratch, f"annotations{index}.json")
            with open(path, "w", encoding="utf-8") as handle:
                handle.write(ajson.dumps(content))
            paths.append(path)
        manual = SideloadSimple(*spec["manual"]) if spec.get("manual") else None
        return general.load_single_record_annotations(paths, record, manual, list(spec.get("markers") or []),
                                                      spec.get("padding", 20000))
    finally:
        shutil.rmtree(scratch, ignore_errors=True)


def _sideload_predicted(results) -> str:
    from antismash.common.serialiser import feature_to_json
    dumped = []
    for area in list(results.get_predicted_subregions()) + list(results.get_predicted_protoclusters()):
        dumped.extend(feature_to_json(feature) for feature in area.to_biopython())
    return _dumps(dumped)


def check_sideload(spec: dict) -> dict:
    try:
        return _check_sideload(spec)
    finally:
        _cleanup()


def _check_sideload(spec: dict) -> dict:
    from antismash import main
    from antismash.detection import sideloader
    from antismash.detection.sideloader.data_structures import SideloadedResults

    options = _options([])
    record = _sideload_record(spec, spec["rid"])
    made = _guard(lambda: _sideload_original(spec, record))
    if made[0] != "ok":
        return {"nontrivial": False, "classes": ["load_failed_" + made[1]]}
    original = made[1]
    texts = {"pre": _dumps(original.to_json())}
    predicted0 = _guard(lambda: _sideload_predicted(original))

    def apply(results, target) -> tuple:
        return _guard(lambda: results.add_to_record(target))      # FULL_GENOME stage of main.run_detection

    applied0 = apply(original, record)[:2]
    texts["post"] = _dumps(original.to_json())
    snap0 = _guard(lambda: _snapshot(record))

    def regenerate(level: str, data: dict, fresh, _env: dict) -> tuple:
        def work():
            if level == "class":
                return SideloadedResults.from_json(data, fresh)
            if level == "module":
                return sideloader.regenerate_previous_results(data, fresh, options)
            options.all_enabled_modules = [sideloader]
            module_results = {sideloader.__name__: data}
            with _no_external_tools():
                main.run_module(fresh, sideloader, options, module_results, {})
            return module_results.get(sideloader.__name__)
        return _guard(work)

    def extra(again, where: dict) -> None:
        if not isinstance(again, SideloadedResults):
            raise Violation("regenerate_type", dict(where, returned=type(again).__name__))
        predicted = _guard(lambda: _sideload_predicted(again))
        if predicted[0] != predicted0[0]:
            raise Violation("predicted_areas", dict(where, original=predicted0[:2], regenerated=predicted[:2]))
        if predicted[0] == "ok":
            _compare_text("predicted_areas", predicted[1], predicted0[1], where)

    classes: set = set()
    changed = _run_history(spec, original_texts=texts, snapshot0=snap0, applied0=applied0,
                           build_record=lambda rid: _sideload_record(spec, rid), regenerate=regenerate, apply=apply,
                           save=lambda results: _dumps(results.to_json()),
                           mutate=_schema_and_id_mutator("schema_version", "record_id"), classes=classes,
                           extra_compare=extra)
    areas = original.subregions + original.protoclusters
    detailed = any(area.details for area in areas) or any(area.tool.configuration for area in areas)
    classes.add(f"subregions_{min(len(original.subregions), 3)}")
    classes.add(f"protoclusters_{min(len(original.protoclusters), 3)}")
    classes.add("circular" if spec["circular"] else "linear")
    if detailed:
        classes.add("with_details")
    if any(area.circular_origin and area.start > area.end for area in areas):
        classes.add("area_over_origin")
    if applied0[0] == "exc":
        classes.add("apply_raises_" + str(applied0[1]))
    return {"nontrivial": len(areas) >= 2 or detailed or changed, "classes": sorted(classes)}


DETAIL_KEYS = ["score", "note.1", "Evidence-code", "k2"]
DETAIL_VALUES = ["1.5", "high confidence", "a=b", "x y z", "7"]


@st.composite
def _details(draw) -> dict:
    out = {}
    for key in draw(st.lists(st.sampled_from(DETAIL_KEYS), max_size=3, unique=True)):
        if draw(st.booleans()):
            out[key] = draw(st.sampled_from(DETAIL_VALUES))
        else:
            out[key] = draw(st.lists(st.sampled_from(DETAIL_VALUES), min_size=1, max_size=3))
    return out


def _gene_bounds(gene: dict) -> tuple:
    starts = [p[0] for p in gene["loc"]["parts"]]
    ends = [p[1] for p in gene["loc"]["parts"]]
    return min(starts), max(ends)


@st.composite
def _area_around(draw, genes: list, length: int, circular: bool) -> tuple:
    """ (start, end) of an area that holds at least one whole gene; start > end when it wraps the origin """
    plain = [g for g in genes if not gen.is_span(g["loc"])]
    spanning = [g for g in genes if gen.is_span(g["loc"])]
    if circular and spanning and draw(st.integers(0, 2)) == 0:
        gene = draw(st.sampled_from(spanning))
        tail_start = max(p[0] for p in gene["loc"]["parts"])
        head_end = min(p[1] for p in gene["loc"]["parts"])
        start = draw(st.integers(max(head_end + 1, tail_start - 30), tail_start))
        end = draw(st.integers(head_end, min(start - 1, head_end + 30)))
        return start, end
    if not plain:
        return None
    first = draw(st.integers(0, len(plain) - 1))
    last = draw(st.integers(first, min(len(plain) - 1, first + 2)))
    low = min(_gene_bounds(g)[0] for g in plain[first:last + 1])
    high = max(_gene_bounds(g)[1] for g in plain[first:last + 1])
    start = draw(gen.coord(max(0, low - 40), low))
    end = draw(gen.coord(high, min(length, high + 40)))
    return start, end


@st.composite
def sideload_specs(draw) -> dict:
    circular = draw(st.booleans())
    length = draw(st.integers(200, 1500))
    genes = draw(gen.gene_layout(length, circular, max_genes=7, min_genes=1, size_hint=50))
    rid = "rec1"
    name = draw(st.sampled_from(["rec1", "rec1", "locus_A"]))
    files = []
    for _ in range(draw(st.sampled_from([0, 1, 1, 2]))):
        tool = {"name": draw(st.sampled_from(["some tool", "my-tool", "finder_x"])),
                "version": draw(st.sampled_from(["1.0", "2.3-beta", "7"]))}
        if draw(st.booleans()):
            tool["description"] = draw(st.sampled_from(["finds things", "v2 (fast)"]))
        if draw(st.booleans()):
            tool["configuration"] = draw(_details())
        subregions = []
        protoclusters = []
        for _ in range(draw(st.integers(0, 3))):
            bounds = draw(_area_around(genes, length, circular))
            if bounds is None:
                continue
            start, end = bounds
            if draw(st.integers(0, 4)) < 2:
                area = {"start": start, "end": end, "label": draw(st.sampled_from(["Polyketide", "x", "Type I PKS", "a-b"]))}
                if end < 1:
                    continue
                if draw(st.booleans()):
                    area["details"] = draw(_details())
                subregions.append(area)
            else:
                if end < 1:
                    continue
                area = {"core_start": start, "core_end": end,
                        "product": draw(st.sampled_from(["T1PKS", "NRPS", "my-product", "prod_2"]))}
                span = (end - start) if end > start else (length - start + end)
                room = max(0, (length - span) // 2 - 1)
                left_max = room if circular else min(room, start)
                right_max = room if circular else min(room, length - end if end > start else 0)
                if draw(st.booleans()):
                    area["neighbourhood_left"] = draw(gen.coord(0, left_max))
                if draw(st.booleans()):
                    area["neighbourhood_right"] = draw(gen.coord(0, right_max))
                if draw(st.booleans()):
                    area["details"] = draw(_details())
                protoclusters.append(area)
        entry = {"name": draw(st.sampled_from([rid, name]))}
        if subregions or draw(st.booleans()):
            entry["subregions"] = subregions
        if protoclusters or draw(st.booleans()):
            entry["protoclusters"] = protoclusters
        records = [entry]
        if draw(st.integers(0, 3)) == 0:
            records.insert(0, {"name": "unrelated", "subregions": [{"start": 0, "end": 5, "label": "elsewhere"}]})
        files.append({"tool": tool, "records": records})
    manual = None
    if draw(st.integers(0, 2)) == 0:
        bounds = draw(_area_around(genes, length, circular))
        if bounds is not None and (bounds[0] < bounds[1] or circular):
            manual = [draw(st.sampled_from([rid, name])), bounds[0],
                      bounds[1] + draw(st.sampled_from([0, 0, 5000])) if bounds[0] < bounds[1] else bounds[1]]
    markers = []
    if draw(st.integers(0, 2)) == 0:
        markers = draw(st.lists(st.sampled_from([g["name"] for g in genes] + ["absent"]), min_size=1, max_size=3,
                                unique=True))
    padding = draw(st.sampled_from([0, 10, 50, 20000]))
    changes = [{"kind": "schema", "values": [0, 2, "1", "missing", None]},
               {"kind": "record_id", "values": ["rec2", "rec1 ", "REC1", name if name != rid else "other"]}]
    steps = draw(simple_history(SIDELOAD_LEVELS, changes))
    return {"L": length, "circular": circular, "genes": genes, "rid": rid, "name": name, "files": files,
            "manual": manual, "markers": markers, "padding": padding, "steps": steps}


# =========================================================================== NRPS/PKS domains and modules

NRPS_LEVELS = ("class", "module", "main")
KS_SUBTYPES = ("Trans-AT-KS", "Modular-KS", "Iterative-KS", "Hybrid-KS", "Enediyne-KS")
MODULE_TEMPLATES = [
    ["Condensation_LCL", "AMP-binding", "PCP"],
    ["Condensation_DCL", "AMP-binding", "nMT", "PCP", "Epimerization"],
    ["Condensation_Starter", "AMP-binding", "PCP"],
    ["Heterocyclization", "A-OX", "PCP", "Thioesterase"],
    ["AMP-binding", "PCP"],
    ["PKS_KS", "PKS_AT", "PKS_DH", "PKS_ER", "PKS_KR", "ACP"],
    ["PKS_KS", "PKS_AT", "PKS_KR", "PKS_PP", "Thioesterase"],
    ["PKS_KS", "PKS_AT", "ACP"],
    ["PKS_KS:Trans-AT-KS", "PKS_DH", "ACP", "PKS_KR"],
    ["PKS_KS:Trans-AT-KS", "Trans-AT_docking", "PKS_KR", "ACP_beta"],
    ["PKS_KS:Iterative-KS", "PKS_AT", "PT", "ACP", "TD"],
    ["CAL_domain", "ACP"],
    ["SAT", "PKS_KS", "PKS_AT", "ACP"],
    ["AMP-binding", "PCP", "PCP", "LPG_synthase_C", "Beta_elim_lyase"],
    ["PKS_KS", "PKS_AT", "cMT", "oMT", "PP-binding", "cAT"],
    ["NRPS-COM_Nterm", "Condensation_Dual", "AMP-binding", "TIGR01720", "PCP", "NRPS-COM_Cterm"],
    ["Cglyc", "AMP-binding", "PCP", "X", "TauD"],
    ["PKS_Docking_Nterm", "PKS_KS", "PKS_AT", "PKS_DHt", "PKS_DH2", "ACP", "PKS_Docking_Cterm"],
    ["FkbH", "ACP", "GNAT", "ECH", "Aminotran_1_2"],
]
LOOSE_DOMAINS = ["PKS_KR", "PCP", "ACP", "Thioesterase", "AMP-binding", "PKS_KS", "Condensation_sid", "Abhydrolase_1",
                 "Polyketide_cyc", "Polyketide_cyc2", "NAD_binding_4", "Interface", "IBH_Asp", "B", "F", "Hal", "PS",
                 "ACPS", "Aminotran_3", "Aminotran_4", "Aminotran_5", "TIGR02353", "Condensation_DCL"]
MOTIF_NAMES = ["C1_dup_024-031", "NRPS-A_a3", "PKSI-KR_m1", "NRPS-te1", "PKSI-AT-M_m3"]


def _nrps_layout(genes: list) -> tuple:
    pos = 30
    layout = []
    for gene in genes:
        ends = [dom["e"] for dom in gene["doms"]] + [motif["e"] for motif in gene.get("motifs") or []] + [10]
        protein = max(ends) + gene.get("tail", 5)
        layout.append((pos, pos + 3 * protein, protein))
        pos += 3 * protein + gene.get("gap", 60)
    return layout, pos + 30


def _nrps_record(spec: dict, record_id: str):
    from antismash.common.secmet.features import SubRegion
    from antismash.common.secmet.locations import FeatureLocation
    layout, length = _nrps_layout(spec["genes"])
    record = make_record(length, False, record_id=record_id)
    for gene, (start, end, protein) in zip(spec["genes"], layout):
        record.add_cds_feature(make_cds({"parts": [[start, end]], "strand": gene["strand"]}, gene["name"],
                                        translation="M" + "ACDEFGHIKL"[protein % 10] * (protein - 1)))
    cut = spec.get("region_cut")
    if cut:      # two regions: genes [0, cut) and [cut, n)
        middle = layout[cut - 1][1] + 10
        bounds = [(0, middle), (middle + 10, length)]
    else:
        bounds = [(0, length)]
    for start, end in bounds:
        record.add_subregion(SubRegion(FeatureLocation(start, end, 1), tool="verif"))
    record.create_candidate_clusters()
    record.create_regions()
    return record


def _nrps_hmm(hit: dict, parent: dict = None):
    from antismash.common.hmmscan_refinement import HMMResult
    start = hit.get("s", parent["s"] if parent else 0)
    end = hit.get("e", parent["e"] if parent else 1)
    inner = [_nrps_hmm(sub, {"s": start, "e": end}) for sub in hit.get("in") or []]
    return HMMResult(hit["id"], start, end, hit["ev"], hit["sc"], internal_hits=inner)


def _nrps_generate(spec: dict, record):
    from unittest import mock
    from antismash.detection.nrps_pks_domains import domain_identification as di
    domains = {gene["name"]: [_nrps_hmm(dom) for dom in gene["doms"]] for gene in spec["genes"] if gene["doms"]}
    motifs = {gene["name"]: [_nrps_hmm(motif) for motif in gene["motifs"]]
              for gene in spec["genes"] if gene.get("motifs")}
    with mock.patch.object(di, "find_domains", lambda fasta, rec: domains), \
            mock.patch.object(di, "find_subtypes", lambda *args, **kwargs: {}), \
            mock.patch.object(di, "find_ab_motifs", lambda fasta: motifs), \
            mock.patch.object(di, "get_database_path", lambda *args: "unused"):
        return di.generate_domains(record)


def check_nrps(spec: dict) -> dict:
    try:
        return _check_nrps(spec)
    finally:
        _cleanup()


def _check_nrps(spec: dict) -> dict:
    from antismash import main
    from antismash.detection import nrps_pks_domains
    from antismash.detection.nrps_pks_domains.domain_identification import NRPSPKSDomains

    options = _options([])
    record = _nrps_record(spec, spec["rid"])
    made = _guard(lambda: _nrps_generate(spec, record))
    if made[0] != "ok":
        return {"nontrivial": False, "classes": ["generation_failed_" + made[1]]}
    original = made[1]
    texts = {"pre": _dumps(original.to_json())}

    def apply(results, target) -> tuple:
        return _guard(lambda: results.add_to_record(target))      # PER_AREA stage of main.run_detection

    applied0 = apply(original, record)[:2]
    texts["post"] = _dumps(original.to_json())
    snap0 = _guard(lambda: _snapshot(record))

    def regenerate(level: str, data: dict, fresh, _env: dict) -> tuple:
        def work():
            if level == "class":
                return NRPSPKSDomains.from_json(data, fresh)
            if level == "module":
                return nrps_pks_domains.regenerate_previous_results(data, fresh, options)
            options.all_enabled_modules = [nrps_pks_domains]
            module_results = {nrps_pks_domains.__name__: data}
            with _no_external_tools():
                main.run_module(fresh, nrps_pks_domains, options, module_results, {})
            return module_results.get(nrps_pks_domains.__name__)
        return _guard(work)

    def extra(again, where: dict) -> None:
        if not isinstance(again, NRPSPKSDomains):
            raise Violation("regenerate_type", dict(where, returned=type(again).__name__))

    classes: set = set()
    changed = _run_history(spec, original_texts=texts, snapshot0=snap0, applied0=applied0,
                           build_record=lambda rid: _nrps_record(spec, rid), regenerate=regenerate, apply=apply,
                           save=lambda results: _dumps(results.to_json()),
                           mutate=_schema_and_id_mutator("schema_version", "record_id"), classes=classes,
                           extra_compare=extra,
                           build_other=lambda rid, index: _nrps_record(_other_content(spec, index), rid))
    modules = [module for result in original.cds_results.values() for module in result.modules]
    big = any(len(module.components) >= 3 for module in modules)
    multi_gene = any(len({comp.locus for comp in module.components}) > 1 for module in modules)
    nested = any(dom.internal_hits for result in original.cds_results.values() for dom in result.domain_hmms)
    deep = any(sub.internal_hits for result in original.cds_results.values() for dom in result.domain_hmms
               for sub in dom.internal_hits)
    classes.add(f"modules_{min(len(modules), 4)}")
    classes.add(f"genes_with_results_{min(len(original.cds_results), 4)}")
    for flag, label in ((big, "module_3plus"), (multi_gene, "multi_gene_module"), (nested, "internal_hits"),
                        (deep, "internal_hits_depth_2"),
                        (any(result.motif_hmms for result in original.cds_results.values()), "motifs"),
                        (any(module.is_complete() for module in modules), "complete_module"),
                        (any(not module._first_in_cds for module in modules), "not_first_in_cds"),
                        (bool(spec.get("region_cut")), "two_regions"),
                        (any(gene["strand"] == -1 for gene in spec["genes"]), "reverse_strand")):
        if flag:
            classes.add(label)
    if applied0[0] == "exc":
        classes.add("apply_raises_" + str(applied0[1]))
    return {"nontrivial": big or multi_gene or nested or changed, "classes": sorted(classes)}


@st.composite
def _domain_chain(draw) -> list:
    """ domain tokens ("name" or "PKS_KS:subtype") of one assembly line, built from module templates and
        then disturbed (drop / duplicate / insert) """
    chain = []
    for _ in range(draw(st.integers(1, 4))):
        chain.extend(draw(st.sampled_from(MODULE_TEMPLATES)))
    for _ in range(draw(st.sampled_from([0, 0, 1, 2]))):
        action = draw(st.sampled_from(["drop", "dup", "insert"]))
        index = draw(st.integers(0, len(chain) - 1))
        if action == "drop" and len(chain) > 1:
            chain.pop(index)
        elif action == "dup":
            chain.insert(index, chain[index])
        else:
            chain.insert(index, draw(st.sampled_from(LOOSE_DOMAINS)))
    return chain


@st.composite
def _positioned_gene(draw, tokens: list, name: str, strand: int) -> dict:
    doms = []
    pos = draw(st.integers(0, 12))
    for token in tokens:
        size = draw(st.sampled_from([15, 30, 42, 80]))
        base, _, subtype = token.partition(":")
        dom = {"id": base, "s": pos, "e": pos + size,
               "ev": draw(st.sampled_from([1e-50, 3.2e-12, 1.5e-05, 0.0])),
               "sc": draw(st.sampled_from([25.5, 100.0, 345.6, 12.0]))}
        if base == "PKS_KS":
            style = draw(st.integers(0, 5))
            if subtype or style == 0:
                inner = {"id": subtype or draw(st.sampled_from(KS_SUBTYPES)), "ev": 1e-30, "sc": 250.5}
                if inner["id"] == "Trans-AT-KS" and draw(st.booleans()):
                    inner["in"] = [{"id": draw(st.sampled_from(["Clade_12", "Clade_88", "unknown_clade"])),
                                    "ev": 1e-8, "sc": 77.0, "s": pos + 1, "e": pos + size - 1}]
                dom["in"] = [inner]
            elif style == 1:
                dom["in"] = [{"id": "Modular-KS", "ev": 1e-30, "sc": 200.0},
                             {"id": "Hybrid-KS", "ev": 1e-25, "sc": 180.0, "s": pos + 2, "e": pos + size}]
        doms.append(dom)
        pos += size + draw(st.sampled_from([0, 3, 10, -4]))
        pos = max(pos, 0)
    motifs = []
    for _ in range(draw(st.sampled_from([0, 0, 1, 3]))):
        start = draw(st.integers(0, max(1, pos)))
        motifs.append({"id": draw(st.sampled_from(MOTIF_NAMES)), "s": start, "e": start + draw(st.integers(5, 20)),
                       "ev": draw(st.sampled_from([0.1, 2e-05])), "sc": draw(st.sampled_from([8.5, 20.0]))})
    return {"name": name, "strand": strand, "doms": doms, "motifs": motifs,
            "gap": draw(st.sampled_from([60, 60, 3, 200])), "tail": draw(st.sampled_from([5, 0, 40]))}


@st.composite
def nrps_specs(draw) -> dict:
    genes = []
    for _ in range(draw(st.integers(1, 2))):
        chain = draw(_domain_chain())
        strand = draw(st.sampled_from([1, 1, -1]))
        cuts = sorted(set(draw(st.lists(st.integers(1, max(1, len(chain) - 1)), max_size=3))))
        pieces = []
        last = 0
        for cut in cuts + [len(chain)]:
            if cut > last:
                pieces.append(chain[last:cut])
                last = cut
        if draw(st.integers(0, 5)) == 0:
            pieces.insert(draw(st.integers(0, len(pieces))), [])        # a gene without domains in between
        built = []
        for piece in pieces:
            gene_strand = strand if draw(st.integers(0, 7)) else -strand
            built.append(draw(_positioned_gene(piece, "tmp", gene_strand)))
        if strand == -1:
            built.reverse()         # upstream genes of a reverse-strand assembly line lie to the right
        genes.extend(built)
    for index, gene in enumerate(genes):
        gene["name"] = f"g{index}"
    region_cut = None
    if len(genes) >= 2 and draw(st.integers(0, 3)) == 0:
        region_cut = draw(st.integers(1, len(genes) - 1))
    changes = [{"kind": "schema", "values": [3, 5, 0, "4", "missing", None]},
               {"kind": "record_id", "values": ["rec2", "rec1 ", "REC1"]},
               {"kind": "other_content", "values": list(range(len(genes)))}]
    steps = draw(simple_history(NRPS_LEVELS, changes))
    return {"genes": genes, "rid": "rec1", "region_cut": region_cut, "steps": steps}


# =========================================================================== HMMer based results

HMMER_LEVELS = ("class", "module", "main")
HMMER_TOOLS = {"fullhmmer": "full_hmmer", "clusterhmmer": "cluster_hmmer", "tigrfam": "tigrfam"}
PFAM_DATABASE = os.path.join(os.sep, "verif-no-such-dir", "pfam", "35.0", "Pfam-A.hmm")
PFAM_NAMES = {"p450": "PF00067.25", "ketoacyl-synt": "PF00109.29", "Acyl_transf_1": "PF00698.24",
              "adh_short": "PF00106.28", "PP-binding": "PF00550.28", "Abhydrolase_6": "PF12697.10"}
TIGR_DATABASE = os.path.join(os.sep, "verif-no-such-dir", "tigrfam", "TIGRFam.hmm")
TIGR_NAMES = {"acyl_carrier": "TIGR00517", "PKS_KS_like": "TIGR02813", "fabD": "TIGR00128", "NRPS_term": "TIGR01720"}
MODULE_MAX_EVALUE = 0.01
MODULE_MIN_SCORE = 0.0
# path components that may lie above the real .../pfam/<version>/Pfam-A.hmm of a PFAM database: earlier 'pfam'
# directories with or without a version below them, look-alikes and bare numbers. The version of a database is
# that of the LAST pfam/<version> pair (pfamdb.get_db_version_from_path: "the typical antiSMASH layout of
# .../pfam/'VERSION'/..."), which is also where cluster_hmmer/full_hmmer would look for the requested version
# (<database_dir>/pfam/<version>/Pfam-A.hmm).
PFAM_DECOYS = ["pfam/27.0", "pfam/34.0", "pfam/35.0", "pfam/36.0", "pfam/31.0", "pfam", "Pfam", "PFAM", "pfam-dbs",
               "27.0", "36.0", "12", "dbs", "pfam/latest", "pfam/Pfam-A.hmm"]
PFAM_VERSIONS = ["35.0", "35.0", "27.0", "31.0", "36.0"]


def _pfam_database(spec: dict) -> str:
    """ the database path of the saved PFAM results (older regression specs carry none) """
    if "dbdir" not in spec:
        return PFAM_DATABASE
    return os.path.join(spec["dbdir"], "pfam", spec["db_version"], "Pfam-A.hmm")


def _hmmer_record(spec: dict, record_id: str):
    record = make_record(spec["L"], False, record_id=record_id)
    for gene in spec["genes"]:
        record.add_cds_feature(make_cds(gene["loc"], gene["name"]))
    return record


def _hmmer_module(tool: str):
    import importlib
    return importlib.import_module(f"antismash.detection.{HMMER_TOOLS[tool]}")


def _hmmer_original(spec: dict, record):
    from antismash.common import hmmer, pfamdb
    from antismash.detection.tigrfam.tigr_results import TIGRFamResults
    database = TIGR_DATABASE if spec["tool"] == "tigrfam" else _pfam_database(spec)
    # instead of reading NAME/ACC from an HMM file that does not exist here
    pfamdb.KNOWN_MAPPINGS[database] = dict(TIGR_NAMES if spec["tool"] == "tigrfam" else PFAM_NAMES)
    by_profile: dict = {}
    for hsp in spec["hsps"]:
        by_profile.setdefault(hsp["hit_id"], []).append(types.SimpleNamespace(
            query_id=hsp["gene"], hit_id=hsp["hit_id"], query_start=hsp["s"], query_end=hsp["e"],
            evalue=hsp["ev"], bitscore=hsp["sc"], hit_description=hsp["desc"]))
    fake = [types.SimpleNamespace(id=name, hsps=hsps) for name, hsps in by_profile.items()]
    hits = hmmer.build_hits(record, fake, spec["min_score"], spec["max_evalue"], database)
    results = hmmer.HmmerResults(record.id, spec["max_evalue"], spec["min_score"], database, spec["tool"], hits)
    if spec["tool"] == "tigrfam":
        return TIGRFamResults.from_hmmer_results(results)
    return results


def _hmmer_options(spec: dict, version: str = None):
    version = version or spec.get("db_version", "35.0")
    extra = ["--databases", spec["dbdir"]] if "dbdir" in spec else []
    return _options(["--fullhmmer", "--clusterhmmer", "--tigrfam", "--fullhmmer-pfamdb-version", version,
                     "--clusterhmmer-pfamdb-version", version] + extra)


def _trimmed(model: dict, got: dict, max_evalue: float, min_score: float, where: dict) -> dict:
    """ judges a refiltered JSON against the documented trim: hits strictly inside the new thresholds are all
        kept, hits outside are all dropped, hits exactly on a threshold may go either way; order is kept and
        nothing else changes. Returns the new model (= got) """
    expected = dict(model)
    expected["max evalue"] = float(max_evalue)
    expected["min score"] = float(min_score)
    must = [hit for hit in model["hits"] if hit["score"] > min_score and hit["evalue"] < max_evalue]
    may = [hit for hit in model["hits"] if hit["score"] >= min_score and hit["evalue"] <= max_evalue]
    rest = {key: value for key, value in got.items() if key != "hits"}
    want_rest = {key: value for key, value in expected.items() if key != "hits"}
    if _dumps(rest) != _dumps(want_rest):
        raise Violation("refilter_fields", dict(where, difference=_first_diff(rest, want_rest)))
    hits = got.get("hits")
    position = 0
    for hit in hits:            # a subsequence of `may` ...
        while position < len(may) and may[position] != hit:
            position += 1
        if position == len(may):
            raise Violation("refilter_kept_excluded_hit", dict(where, hit=hit))
        position += 1
    for hit in must:            # ... that holds every hit of `must`
        if hit not in hits:
            raise Violation("refilter_dropped_valid_hit", dict(where, hit=hit))
    if len(hits) > len(may):
        raise Violation("refilter_kept_excluded_hit", dict(where, count=len(hits)))
    return got


def check_hmmer(spec: dict) -> dict:
    try:
        return _check_hmmer(spec)
    finally:
        _cleanup()


def _check_hmmer(spec: dict) -> dict:
    from antismash import main
    from antismash.common import hmmer
    from antismash.detection.tigrfam.tigr_results import TIGRFamResults

    tool = spec["tool"]
    module = _hmmer_module(tool)
    cls = TIGRFamResults if tool == "tigrfam" else hmmer.HmmerResults
    record = _hmmer_record(spec, spec["rid"])
    _hmmer_options(spec)
    made = _guard(lambda: _hmmer_original(spec, record))
    if made[0] != "ok":
        return {"nontrivial": False, "classes": ["build_failed_" + made[1]]}
    original = made[1]
    model = _loads(_dumps(original.to_json()))          # what the current generation is expected to save
    classes: set = set()
    changed = False
    saved_version = spec.get("db_version", "35.0")
    if tool != "tigrfam" and "dbdir" in spec:
        parts = spec["dbdir"].split(os.sep)
        if "pfam" in parts:
            classes.add("earlier_pfam_component")
        if any(one == "pfam" and two in PFAM_VERSIONS and two != saved_version for one, two in zip(parts, parts[1:])):
            classes.add("earlier_pfam_other_version")

    def apply(results, target) -> tuple:
        return _guard(lambda: results.add_to_record(target))[:2]

    applied0 = apply(original, record)
    snap0 = _guard(lambda: _snapshot(record))
    if _dumps(original.to_json()) != _dumps(model):
        raise Violation("json_identity", {"stage": "post", "step": -1})
    text0 = _dumps(model)
    current_text = text0
    for number, step in enumerate(spec["steps"]):
        level = step["level"]
        change = step.get("change")
        data = _loads(current_text)
        where = {"step": number, "level": level, "change": change}
        record_id = spec["rid"]
        version = saved_version
        strict = False
        if change:
            changed = True
            classes.add(f"change_{change['kind']}")
            kind = change["kind"]
            if kind == "schema":
                strict = True
                if change["value"] == "missing":
                    data.pop("schema")
                else:
                    data["schema"] = change["value"]
            elif kind == "record_id":
                strict = True
                record_id = change["value"]
            elif kind == "pfam_version":
                strict = True
                version = change["value"]
            elif kind != "refilter":
                raise AssertionError(kind)
        options = _hmmer_options(spec, version)
        fresh = _hmmer_record(spec, record_id)
        classes.add(f"level_{level}")

        if change and change["kind"] == "refilter":
            # a direct call on regenerated results: laxer must raise, narrower trims
            max_evalue, min_score = change["value"]
            loaded = _guard(lambda: cls.from_json(data, fresh))
            if loaded[0] != "ok" or loaded[1] is None:
                raise Violation("regenerate_failed", dict(where, outcome=loaded[:2]))
            laxer = max_evalue > model["max evalue"] or min_score < model["min score"]
            result = _guard(lambda: loaded[1].refilter(max_evalue, min_score))
            if laxer:
                if result[0] == "exc" and result[1] == "ValueError":
                    classes.add("laxer_refilter_refused")
                    continue
                raise Violation("laxer_refilter_accepted", dict(where, outcome=result[:2] if result[0] == "exc"
                                                                 else "returned"))
            if result[0] != "ok" or result[1] is None:
                raise Violation("narrower_refilter_failed", dict(where, outcome=result[:2]))
            if not isinstance(result[1], cls):
                raise Violation("regenerate_type", dict(where, returned=type(result[1]).__name__))
            got = _loads(_dumps(result[1].to_json()))
            model = _trimmed(model, got, max_evalue, min_score, where)
            current_text = _dumps(result[1].to_json())
            classes.add("narrower_refilter")
            continue

        def work():
            if level == "class":
                return cls.from_json(data, fresh)
            if level == "module":
                return module.regenerate_previous_results(data, fresh, options)
            options.all_enabled_modules = [module]
            module_results = {module.__name__: data}
            with _no_external_tools():
                main.run_module(fresh, module, options, module_results, {})
            return module_results.get(module.__name__)
        outcome = _guard(work)
        # what the module's own thresholds mean for the saved ones
        saved_stricter = model["min score"] > MODULE_MIN_SCORE or model["max evalue"] < MODULE_MAX_EVALUE
        saved_laxer = model["min score"] < MODULE_MIN_SCORE or model["max evalue"] > MODULE_MAX_EVALUE
        if level != "class" and saved_stricter:
            # the module would now accept more than the saved results hold: they must go
            classes.add("saved_thresholds_stricter")
            if not _refused(outcome):
                raise Violation("changed_setting_reused", dict(where, reason="saved thresholds stricter than module's"))
            continue
        if change:
            if _refused(outcome):
                classes.add("refused")
                continue
            raise Violation("changed_setting_reused", dict(where, returned=type(outcome[1]).__name__))
        if outcome[0] == "exc":
            raise Violation("regenerate_failed", dict(where, exception=outcome[1], message=outcome[2]))
        if outcome[1] is None:
            raise Violation("regenerate_discarded", where)
        again = outcome[1]
        if not isinstance(again, cls):
            raise Violation("regenerate_type", dict(where, returned=type(again).__name__))
        text = _dumps(again.to_json())
        if level != "class" and saved_laxer:
            classes.add("saved_thresholds_laxer")
            model = _trimmed(model, _loads(text), MODULE_MAX_EVALUE, MODULE_MIN_SCORE, where)
        else:
            _compare_text("json_identity", text, current_text, dict(where, stage="pre"))
        applied = apply(again, fresh)
        snap = _guard(lambda: _snapshot(fresh))
        if _dumps(model) == text0:
            want_applied, want_snap = applied0, snap0
        else:
            # a trimmed generation: its effects must be those of results loaded directly from the expected JSON
            classes.add("effects_of_trimmed_results")
            twin_record = _hmmer_record(spec, record_id)
            twin = _guard(lambda: cls.from_json(_loads(_dumps(model)), twin_record))
            if twin[0] != "ok" or twin[1] is None:
                raise Violation("regenerate_failed", dict(where, outcome=twin[:2], stage="expected JSON"))
            want_applied = apply(twin[1], twin_record)
            want_snap = _guard(lambda: _snapshot(twin_record))
        if applied != want_applied:
            raise Violation("apply_outcome", dict(where, original=want_applied, regenerated=applied))
        if snap[0] != want_snap[0]:
            raise Violation("effects", dict(where, original=want_snap[:2] if want_snap[0] == "exc" else "ok",
                                            regenerated=snap[:2] if snap[0] == "exc" else "ok"))
        if snap[0] == "ok":
            _compare_text("effects", snap[1], want_snap[1], where)
        _compare_text("json_identity", _dumps(again.to_json()), text, dict(where, stage="post"))
        current_text = text
    if tool != "tigrfam" and "dbdir" in spec:
        # backstops for histories that never reached the reuse decision: the version that decision and the PFAM
        # domain annotations take from the saved database path
        from antismash.common import pfamdb
        read = _guard(lambda: pfamdb.get_db_version_from_path(original.database))
        if read[:2] != ("ok", saved_version):
            raise Violation("saved_database_version_misread", {"database": original.database, "want": saved_version,
                                                               "got": read[1:]})
        if snap0[0] == "ok":
            labelled = {feature["qualifiers"].get("database", [""])[0] for feature in _loads(snap0[1])["features"]
                        if feature["type"] == "PFAM_domain"}
            if labelled and labelled != {saved_version}:
                raise Violation("pfam_domain_database_version", {"database": original.database,
                                                                "want": saved_version, "got": sorted(labelled)})
    classes.add(f"steps_{len(spec['steps'])}")
    classes.add(f"tool_{tool}")
    classes.add(f"hits_{min(len(original.hits), 3)}")
    if any(len(gene["loc"]["parts"]) > 1 for gene in spec["genes"]):
        classes.add("multi_exon_gene")
    if applied0[0] == "exc":
        classes.add("apply_raises_" + str(applied0[1]))
    return {"nontrivial": len(original.hits) >= 2 or changed, "classes": sorted(classes)}


@st.composite
def hmmer_specs(draw) -> dict:
    length = draw(st.integers(300, 1500))
    genes = draw(gen.gene_layout(length, False, max_genes=5, min_genes=2, size_hint=240, allow_span=False))
    for gene in genes:      # whole codons only, so that every protein range maps back to the gene
        parts = gene["loc"]["parts"]
        total = sum(e - s for s, e in parts)
        spare = total % 3
        if spare:
            if gene["loc"]["strand"] == 1 or len(parts) == 1:
                part = parts[-1] if gene["loc"]["strand"] == 1 else parts[0]
            else:
                part = parts[0]
            if part[1] - part[0] > spare:
                part[1] -= spare
    genes = [g for g in genes if sum(e - s for s, e in g["loc"]["parts"]) % 3 == 0
             and sum(e - s for s, e in g["loc"]["parts"]) >= 30]
    seen = set()
    kept = []
    for gene in genes:
        key = (tuple(map(tuple, gene["loc"]["parts"])), gene["loc"]["strand"])
        if key not in seen:
            seen.add(key)
            kept.append(gene)
    genes = kept
    if not genes:
        genes = [{"name": "g0", "loc": {"parts": [[3, 93]], "strand": 1, "kind": "simple"}}]
    tool = draw(st.sampled_from(sorted(HMMER_TOOLS)))
    saved = draw(st.sampled_from(["module", "module", "module", "laxer", "stricter", "laxer_evalue", "stricter_evalue"]))
    max_evalue, min_score = {"module": (0.01, 0.0), "laxer": (0.01, -5.0), "stricter": (0.01, 10.0),
                             "laxer_evalue": (0.5, 0.0), "stricter_evalue": (1e-05, 0.0)}[saved]
    hsps = []
    for _ in range(draw(st.integers(1, 8))):
        gene = draw(st.sampled_from(genes))
        amino = sum(e - s for s, e in gene["loc"]["parts"]) // 3 - 1     # the builder's translation length
        if amino < 2:
            continue
        start = draw(st.integers(0, amino - 1))
        end = draw(st.integers(start + 1, amino))
        hsps.append({"gene": gene["name"], "hit_id": draw(st.sampled_from(sorted(TIGR_NAMES if tool == "tigrfam" else PFAM_NAMES))),
                     "s": start, "e": end,
                     "ev": draw(st.sampled_from([1e-40, 3.3e-09, 1e-05, 1e-05, 0.001, 0.001, 0.01, 0.2])),
                     "sc": draw(st.sampled_from([-2.5, 0.0, 0.5, 10.0, 10.0, 25.75, 25.75, 300.0])),
                     "desc": draw(st.sampled_from(["Cytochrome P450", "Beta-ketoacyl synthase, N-terminal domain",
                                                   "short chain dehydrogenase", "x"]))})
    thresholds = [[0.01, 0.0], [0.001, 0.0], [0.01, 10.0], [1e-05, 25.75], [0.5, 0.0], [0.01, -5.0], [1.0, -100.0],
                  [0.001, 0.5]]
    changes = [{"kind": "schema", "values": [1, 3, "2", "missing", None]},
               {"kind": "record_id", "values": ["rec2", "rec1 ", "REC1"]},
               {"kind": "refilter", "values": thresholds, "levels": ("class",)}]
    spec = {"L": length, "genes": genes, "rid": "rec1", "tool": tool, "max_evalue": max_evalue,
            "min_score": min_score, "hsps": hsps}
    if tool != "tigrfam":
        # the database directory: decoy components above the real pfam/<version>
        decoys = draw(st.lists(st.sampled_from(PFAM_DECOYS), min_size=0, max_size=3))
        spec["dbdir"] = os.path.join(os.sep, "verif-no-such-dir", *[part for decoy in decoys for part in decoy.split("/")])
        spec["db_version"] = draw(st.sampled_from(PFAM_VERSIONS))
        # other versions to request: those the decoys name first of all
        named = [decoy.split("/")[-1] for decoy in decoys if decoy.split("/")[-1] in PFAM_VERSIONS]
        others = [version for version in named + ["34.0", "36.0"] if version != spec["db_version"]]
        changes.append({"kind": "pfam_version", "values": others, "levels": ("main",)})
    steps = draw(simple_history(HMMER_LEVELS, changes, change_odds=2))
    for step in steps:
        step.pop("src")
    spec["steps"] = steps
    return spec


# =========================================================================== HMMResult trees

def _tree_to_hmm(node: dict):
    from antismash.common.hmmscan_refinement import HMMResult
    return HMMResult(node["id"], node["s"], node["e"], node["ev"], node["sc"],
                     internal_hits=[_tree_to_hmm(sub) for sub in node.get("in") or []])


def _tree_describe(hit) -> list:
    return [hit.hit_id, hit.query_start, hit.query_end, repr(hit.evalue), repr(hit.bitscore), len(hit),
            hit.detailed_names, str(hit), [_tree_describe(sub) for sub in hit.internal_hits]]


def check_hmmresult(spec: dict) -> dict:
    from antismash.common.hmmscan_refinement import HMMResult
    made = _guard(lambda: _tree_to_hmm(spec["tree"]))
    if made[0] != "ok":
        raise Violation("construction_failed", {"outcome": made[1:]})      # the generator only nests overlapping hits
    original = made[1]
    text0 = _dumps(original.to_json())
    described0 = _tree_describe(original)
    current = text0
    for cycle in range(spec["cycles"]):
        where = {"cycle": cycle}
        parsed = _loads(current)
        outcome = _guard(lambda: HMMResult.from_json(parsed))
        if outcome[0] != "ok" or outcome[1] is None:
            raise Violation("regenerate_failed", dict(where, outcome=outcome[1:] if outcome[0] == "exc" else None))
        again = outcome[1]
        _compare_text("json_identity", _dumps(again.to_json()), text0, where)
        # the same parsed object once more (CDSResult.from_json and Component.from_json are handed parts of one
        # parsed document; nothing says a hit may be read only once)
        second = _guard(lambda: HMMResult.from_json(parsed))
        if second[0] != "ok" or second[1] is None:
            raise Violation("second_regeneration_failed", dict(where, outcome=second[1:] if second[0] == "exc" else None))
        if _dumps(second[1].to_json()) != text0:
            raise Violation("second_regeneration_differs",
                            dict(where, difference=_text_diff(_dumps(second[1].to_json()), text0)))
        if _tree_describe(again) != described0:
            raise Violation("content", dict(where, difference=_first_diff(_tree_describe(again), described0)))
        if again != original or original != again or hash(again) != hash(original):
            raise Violation("equality", where)
        current = _dumps(again.to_json())

    def depth(node: dict) -> int:
        return 1 + max([depth(sub) for sub in node.get("in") or []] + [0])

    def count(node: dict) -> int:
        return 1 + sum(count(sub) for sub in node.get("in") or [])
    levels = depth(spec["tree"])
    return {"nontrivial": levels > 1,
            "classes": [f"depth_{levels}", f"nodes_{min(count(spec['tree']), 5)}", f"cycles_{spec['cycles']}",
                        "int_scores" if isinstance(spec["tree"]["sc"], int) else "float_scores"]}


@st.composite
def _hit_tree(draw, start: int, end: int, depth: int) -> dict:
    numbers = st.one_of(st.sampled_from([0, 1, 25, 100, 0.0, 1.0, 25.5, 1e-300, 1.5e-08, 3.0000000000000004,
                                         123456.789, 1e+22, 5e-324]),
                        st.floats(min_value=0, max_value=1e6, allow_nan=False, allow_infinity=False))
    node = {"id": draw(st.sampled_from(["PKS_KS", "Trans-AT-KS", "Clade_12", "AMP-binding", "x", "ST_2", "a b"])),
            "s": start, "e": end, "ev": draw(numbers), "sc": draw(numbers)}
    if depth > 0 and end - start >= 1:
        children = []
        for _ in range(draw(st.sampled_from([0, 1, 1, 2, 3]))):
            # overlapping the parent is all that is required (find_subtypes uses overlaps_with)
            child_start = draw(st.integers(max(0, start - 5), end - 1))
            child_end = draw(st.integers(max(child_start, start) + 1, end + 5))
            children.append(draw(_hit_tree(child_start, child_end, depth - 1)))
        if children:
            node["in"] = children
    return node


@st.composite
def hmmresult_specs(draw) -> dict:
    start = draw(st.integers(0, 500))
    end = start + draw(st.integers(1, 400))
    return {"tree": draw(_hit_tree(start, end, draw(st.integers(0, 3)))), "cycles": draw(st.integers(1, 4))}


# =========================================================================== TTA

TTA_LEVELS = ("class", "module", "main")
TTA_BLOCKS = [
    "ATGGCCGGCTTAGCGGCC",      # in-frame TTA, GC rich
    "GCCGGCGCGCCGGGCTGA",      # GC rich, no TTA
    "ATGAAATTATTAAATTAA",      # AT rich, TTA twice in frame
    "TAAGGCCGCGGCCGCCAT",      # reverse strand: ...TAA is TTA on the other strand
    "ATTAGCGCTTACGCCGGC",      # TTA out of frame only
    "AAATATATTTAAATATTT",      # AT rich
    "GGCTTAGGCTTAGGCTTA",      # three in-frame TTA
    "TTATTATTATTATTATTA",      # TTA in every codon (and out-of-frame ATT, TAT)
]


def _tta_sequence(spec: dict) -> str:
    return "".join(TTA_BLOCKS[index] for index in spec["blocks"])


def _tta_record(spec: dict, record_id: str):
    from antismash.common.secmet.features import SubRegion
    from vlib.build import to_loc
    seq = _tta_sequence(spec)
    record = make_record(len(seq), spec["circular"], seq=seq, record_id=record_id)
    for gene in spec["genes"]:
        record.add_cds_feature(make_cds(gene["loc"], gene["name"]))
    for area in spec["areas"]:
        record.add_subregion(SubRegion(to_loc({"parts": area, "strand": 1}), tool="verif"))
    record.create_candidate_clusters()
    record.create_regions()
    return record


def _tta_options(spec: dict, threshold, record):
    value = record.get_gc_content() if threshold == "gc" else threshold
    return _options(["--enable-tta", "--tta-threshold", repr(float(value))])


def check_tta(spec: dict) -> dict:
    try:
        return _check_tta(spec)
    finally:
        _cleanup()


def _check_tta(spec: dict) -> dict:
    from antismash import main
    from antismash.modules import tta
    from antismash.modules.tta.tta import TTAResults

    record = _guard(lambda: _tta_record(spec, spec["rid"]))
    if record[0] != "ok":
        return {"nontrivial": False, "classes": ["record_failed_" + record[1]]}
    record = record[1]
    options = _tta_options(spec, spec["threshold"], record)
    made = _guard(lambda: tta.detect(record, options))
    if made[0] != "ok":
        return {"nontrivial": False, "classes": ["detect_failed_" + made[1]]}
    original = made[1]
    text0 = _dumps(original.to_json())
    applied0 = _guard(lambda: original.add_to_record(record))[:2]
    if _dumps(original.to_json()) != text0:
        raise Violation("json_identity", {"stage": "post", "step": -1})
    snap0 = _guard(lambda: _snapshot(record))
    classes: set = set()
    changed = False
    current = text0
    for number, step in enumerate(spec["steps"]):
        level = step["level"]
        change = step.get("change")
        data = _loads(current)
        record_id = spec["rid"]
        threshold = spec["threshold"]
        where = {"step": number, "level": level, "change": change}
        if change:
            changed = True
            classes.add(f"change_{change['kind']}")
            if change["kind"] == "schema":
                if change["value"] == "missing":
                    data.pop("schema_version")
                else:
                    data["schema_version"] = change["value"]
            elif change["kind"] == "record_id":
                record_id = change["value"]
            elif change["kind"] == "threshold":
                threshold = change["value"]
            else:
                raise AssertionError(change["kind"])
        fresh = _tta_record(spec, record_id)
        options = _tta_options(spec, threshold, fresh)
        classes.add(f"level_{level}")

        def work():
            if level == "class":
                return TTAResults.from_json(data, fresh)
            if level == "module":       # the two calls main.run_module makes
                previous = tta.regenerate_previous_results(data, fresh, options)
                return tta.run_on_record(fresh, previous, options)
            options.all_enabled_modules = [tta]
            module_results = {tta.__name__: data}
            main.run_module(fresh, tta, options, module_results, {})
            return module_results.get(tta.__name__)
        outcome = _guard(work)
        # what the module computes from scratch under the settings of this step
        twin_record = _tta_record(spec, record_id)
        twin = tta.detect(twin_record, options)
        twin_text = _dumps(twin.to_json())
        if not change:
            if twin_text != text0:
                raise AssertionError("tta.detect is not repeatable")      # harness assumption
            if outcome[0] == "exc":
                raise Violation("regenerate_failed", dict(where, exception=outcome[1], message=outcome[2]))
            if outcome[1] is None:
                raise Violation("regenerate_discarded", where)
        else:
            if _refused(outcome):
                classes.add("refused")
                continue
            if change["kind"] == "schema":
                if level == "class":
                    raise Violation("changed_setting_reused", dict(where, returned=type(outcome[1]).__name__))
                classes.add("rerun_after_refusal")
        again = outcome[1]
        if not isinstance(again, TTAResults):
            raise Violation("regenerate_type", dict(where, returned=type(again).__name__))
        text = _dumps(again.to_json())
        applied = _guard(lambda: again.add_to_record(fresh))[:2]
        if change and change["kind"] == "record_id" and text != twin_text:
            # results that still belong to the other record are fine as long as they refuse this one
            if applied[0] == "exc":
                classes.add("refused_on_apply")
                continue
            raise Violation("changed_setting_reused", dict(where, saved_for=again.record_id, applied_to=fresh.id))
        _compare_text("changed_setting_reinterpreted" if change else "json_identity", text, twin_text,
                      dict(where, stage="pre"))
        applied_twin = _guard(lambda: twin.add_to_record(twin_record))[:2]
        if applied != applied_twin:
            raise Violation("apply_outcome", dict(where, original=applied_twin, regenerated=applied))
        snap = _guard(lambda: _snapshot(fresh))
        snap_twin = _guard(lambda: _snapshot(twin_record))
        if not change:
            if applied != applied0:
                raise Violation("apply_outcome", dict(where, original=applied0, regenerated=applied))
            snap_twin = snap0
        if snap[0] != snap_twin[0]:
            raise Violation("effects", dict(where, original=snap_twin[:2] if snap_twin[0] == "exc" else "ok",
                                            regenerated=snap[:2] if snap[0] == "exc" else "ok"))
        if snap[0] == "ok":
            _compare_text("effects", snap[1], snap_twin[1], where)
        _compare_text("json_identity", _dumps(again.to_json()), text, dict(where, stage="post"))
        if not change:
            current = text
    gc_content = record.get_gc_content()
    classes.add(f"steps_{len(spec['steps'])}")
    classes.add(f"codons_{min(len(original.features), 3)}")
    classes.add("gc_below_threshold" if gc_content < original.threshold else
                ("gc_equals_threshold" if gc_content == original.threshold else "gc_above_threshold"))
    classes.add("circular" if spec["circular"] else "linear")
    if applied0[0] == "exc":
        classes.add("apply_raises_" + str(applied0[1]))
    return {"nontrivial": len(original.features) >= 1 or changed, "classes": sorted(classes)}


@st.composite
def tta_specs(draw) -> dict:
    style = draw(st.sampled_from(["gc", "gc", "gc", "at", "mixed"]))
    weights = {"gc": [0, 1, 1, 3, 4, 6, 0, 1, 3], "at": [2, 5, 7, 2, 5, 0], "mixed": list(range(len(TTA_BLOCKS)))}[style]
    blocks = draw(st.lists(st.sampled_from(weights), min_size=6, max_size=24))
    length = 18 * len(blocks)
    circular = draw(st.booleans())
    genes = []
    seen = set()
    for index in range(draw(st.integers(1, 5))):
        first = draw(st.integers(0, len(blocks) - 1))
        count = draw(st.integers(1, min(4, len(blocks) - first)))
        strand = draw(st.sampled_from([1, -1]))
        start = 18 * first + 3 * draw(st.integers(0, 2))
        end = 18 * (first + count) - 3 * draw(st.integers(0, 2))
        if end - start < 9 or (start, end, strand) in seen:
            continue
        seen.add((start, end, strand))
        parts = [[start, end]]
        if end - start >= 30 and draw(st.integers(0, 4)) == 0:
            cut = start + 3 * draw(st.integers(2, (end - start) // 3 - 4))
            parts = [[start, cut], [cut + 3 * draw(st.integers(1, 2)), end]]
            if strand == -1:
                parts.reverse()
        genes.append({"name": f"g{index}", "loc": {"parts": parts, "strand": strand,
                                                   "kind": "simple" if len(parts) == 1 else "multi"}})
    if circular and draw(st.integers(0, 3)) == 0:
        strand = draw(st.sampled_from([1, -1]))
        parts = [[length - 9, length], [0, 12]]
        if strand == -1:
            parts.reverse()
        genes.append({"name": f"g{len(genes)}", "loc": {"parts": parts, "strand": strand, "kind": "span"}})
    if not genes:
        genes.append({"name": "g0", "loc": {"parts": [[0, 18]], "strand": 1, "kind": "simple"}})
    for index, gene in enumerate(genes):
        gene["name"] = f"g{index}"
    areas = [[[0, length]]] if draw(st.integers(0, 3)) else [[[0, length // 2]]]
    gc_estimate = sum(_tta_sequence({"blocks": blocks}).count(base) for base in "GC") / length
    near = [round(gc_estimate - 0.05, 3), round(gc_estimate + 0.05, 3)]
    thresholds = ["gc", 0.0, 1.0, 0.65, 0.5, 0.3] + [value for value in near if 0 <= value <= 1]
    threshold = draw(st.sampled_from(thresholds + ["gc", 0.0, 0.3, near[0] if 0 <= near[0] <= 1 else 0.0]))
    changes = [{"kind": "schema", "values": [1, 3, "2", "missing", None]},
               {"kind": "record_id", "values": ["rec2", "rec1 ", "REC1"]},
               {"kind": "threshold", "values": [value for value in thresholds if value != threshold]}]
    steps = draw(simple_history(TTA_LEVELS, changes, change_odds=2))
    for step in steps:
        step.pop("src")
    return {"blocks": blocks, "circular": circular, "genes": genes, "areas": areas, "threshold": threshold,
            "rid": "rec1", "steps": steps}



# =========================================================================== RREFinder

RRE_LEVELS = ("class", "module", "main")
RRE_DATABASE = os.path.join(os.sep, "verif-no-such-dir", "rrefinder", "RREFam.hmm")
RRE_NAMES = {"Lanthipeptide_RRE": "RREFam001.1", "Stand_Alone_Lasso_RRE": "RREFam006.1", "Thiopeptide_F_RRE": "RREFam021.1",
             "PqqD_RRE": "RREFam008.2"}


def _rre_options(cutoff: float, min_length: int):
    return _options(["--rre", "--rre-cutoff", repr(float(cutoff)), "--rre-minlength", str(int(min_length))])


def _rre_original(spec: dict, record):
    """ what run_rrefinder does after the HMMER run: build_hits with the cutoff as (exclusive) minimum, then
        extract_rre_hits, filter_hits and the results object """
    from antismash.common import hmmer, pfamdb
    from antismash.modules.rrefinder import rrefinder
    pfamdb.KNOWN_MAPPINGS[RRE_DATABASE] = dict(RRE_NAMES)
    by_profile: dict = {}
    for hsp in spec["hsps"]:
        by_profile.setdefault(hsp["hit_id"], []).append(types.SimpleNamespace(
            query_id=hsp["gene"], hit_id=hsp["hit_id"], query_start=hsp["s"], query_end=hsp["e"],
            evalue=hsp["ev"], bitscore=hsp["sc"], hit_description=hsp["desc"]))
    fake = [types.SimpleNamespace(id=name, hsps=hsps) for name, hsps in by_profile.items()]
    hits = hmmer.build_hits(record, fake, spec["cutoff"], 1, RRE_DATABASE)
    found = hmmer.HmmerResults(record.id, 1, spec["cutoff"], RRE_DATABASE, "rrefinder", hits)
    by_cds = rrefinder.extract_rre_hits(found)
    candidates = {int(number): list(names) for number, names in spec["candidates"].items()}
    by_cds, by_proto = rrefinder.filter_hits(by_cds, candidates, spec["min_length"], spec["cutoff"])
    return rrefinder.RREFinderResults(record.id, float(spec["cutoff"]), int(spec["min_length"]), by_proto, by_cds)


def _rre_trimmed(model: dict, got: dict, cutoff: float, min_length: int, where: dict) -> dict:
    """ judges results regenerated under stricter thresholds: they say which thresholds they are complete for
        (the ones asked for), keep every hit above the cutoff that is long enough, drop every hit below the cutoff
        or too short (a score exactly on the cutoff may go either way: the HMMER run excludes it, the filter keeps
        it), keep the order, and list per protocluster exactly the genes that still have hits """
    if set(got) != set(model):
        raise Violation("refilter_fields", dict(where, got=sorted(got), want=sorted(model)))
    for key in ("schema_version", "record_id"):
        if got[key] != model[key]:
            raise Violation("refilter_fields", dict(where, field=key, got=got[key], want=model[key]))
    if got["bitscore_cutoff"] != float(cutoff) or got["min_length"] != int(min_length):
        raise Violation("thresholds_not_recorded", dict(where, recorded=[got["bitscore_cutoff"], got["min_length"]],
                                                        used=[cutoff, min_length]))
    for name, hits in got["hits_by_cds"].items():
        saved = model["hits_by_cds"].get(name)
        if saved is None or not hits:
            raise Violation("refilter_kept_excluded_hit", dict(where, gene=name))
        may = [hit for hit in saved if hit["score"] >= cutoff and hit["protein_end"] - hit["protein_start"] >= min_length]
        position = 0
        for hit in hits:
            while position < len(may) and may[position] != hit:
                position += 1
            if position == len(may):
                raise Violation("refilter_kept_excluded_hit", dict(where, gene=name, hit=hit))
            position += 1
    for name, saved in model["hits_by_cds"].items():
        for hit in saved:
            if hit["score"] > cutoff and hit["protein_end"] - hit["protein_start"] >= min_length \
                    and hit not in got["hits_by_cds"].get(name, []):
                raise Violation("refilter_dropped_valid_hit", dict(where, gene=name, hit=hit))
    want_proto = {}
    for number, names in model["hits_by_protocluster"].items():
        left = [name for name in names if name in got["hits_by_cds"]]
        if left:
            want_proto[number] = left
    if got["hits_by_protocluster"] != want_proto:
        raise Violation("refilter_protocluster_listing", dict(where, got=got["hits_by_protocluster"], want=want_proto))
    return got


def check_rre(spec: dict) -> dict:
    try:
        return _check_rre(spec)
    finally:
        _cleanup()


def _check_rre(spec: dict) -> dict:
    from unittest import mock
    from antismash import main
    from antismash.modules import rrefinder as module
    cls = module.RREFinderResults

    record = _hmmer_record(spec, spec["rid"])
    _rre_options(spec["cutoff"], spec["min_length"])
    made = _guard(lambda: _rre_original(spec, record))
    if made[0] != "ok":
        return {"nontrivial": False, "classes": ["build_failed_" + made[1]]}
    original = made[1]
    model = _loads(_dumps(original.to_json()))
    classes: set = set()
    changed = False

    def apply(results, target) -> tuple:
        return _guard(lambda: results.add_to_record(target))[:2]

    applied0 = apply(original, record)
    snap0 = _guard(lambda: _snapshot(record))
    text0 = _dumps(model)
    if _dumps(original.to_json()) != text0:
        raise Violation("json_identity", {"stage": "post", "step": -1})
    current_text = text0
    saved = (float(spec["cutoff"]), int(spec["min_length"]))   # what the saved generation is complete for
    for number, step in enumerate(spec["steps"]):
        level = step["level"]
        change = step.get("change")
        data = _loads(current_text)
        where = {"step": number, "level": level, "change": change, "saved_thresholds": list(saved)}
        record_id = spec["rid"]
        asked = (float(spec["cutoff"]), int(spec["min_length"]))
        strict = False
        if change:
            changed = True
            classes.add(f"change_{change['kind']}")
            if change["kind"] == "schema":
                strict = True
                if change["value"] == "missing":
                    data.pop("schema_version")
                else:
                    data["schema_version"] = change["value"]
            elif change["kind"] == "record_id":
                strict = True
                record_id = change["value"]
            elif change["kind"] == "thresholds":
                asked = (float(change["value"][0]), int(change["value"][1]))
            else:
                raise AssertionError(change["kind"])
        options = _rre_options(*asked)
        fresh = _hmmer_record(spec, record_id)
        classes.add(f"level_{level}")

        def work():
            if level == "class":
                return cls.from_json(data, fresh)
            if level == "module":
                return module.regenerate_previous_results(data, fresh, options)
            options.all_enabled_modules = [module]
            module_results = {module.__name__: data}

            def rerun(*_args, **_kwargs):
                raise RuntimeError("the analysis would be run again")
            with _no_external_tools(), mock.patch.object(module, "run_rrefinder", rerun):
                main.run_module(fresh, module, options, module_results, {})
            return module_results.get(module.__name__)
        outcome = _guard(work)
        laxer = asked[0] < saved[0] or asked[1] < saved[1]
        if strict or laxer:
            if laxer:
                classes.add("asked_laxer_than_saved")
            if _refused(outcome):
                classes.add("refused")
                continue
            raise Violation("changed_setting_reused", dict(where, asked=list(asked),
                                                           returned=type(outcome[1]).__name__))
        if outcome[0] == "exc":
            raise Violation("regenerate_failed", dict(where, exception=outcome[1], message=outcome[2]))
        if outcome[1] is None:
            raise Violation("regenerate_discarded", dict(where, asked=list(asked)))
        again = outcome[1]
        if not isinstance(again, cls):
            raise Violation("regenerate_type", dict(where, returned=type(again).__name__))
        text = _dumps(again.to_json())
        if asked == saved:
            _compare_text("json_identity", text, current_text, dict(where, stage="pre"))
        else:
            classes.add("asked_stricter_than_saved")
            before = sum(len(hits) for hits in model["hits_by_cds"].values())
            model = _rre_trimmed(model, _loads(text), asked[0], asked[1], dict(where, asked=list(asked)))
            if sum(len(hits) for hits in model["hits_by_cds"].values()) < before:
                classes.add("stricter_thresholds_dropped_hits")
            saved = asked
        applied = apply(again, fresh)
        snap = _guard(lambda: _snapshot(fresh))
        if _dumps(model) == text0:
            want_applied, want_snap = applied0, snap0
        else:
            classes.add("effects_of_trimmed_results")
            twin_record = _hmmer_record(spec, record_id)
            twin = _guard(lambda: cls.from_json(_loads(_dumps(model)), twin_record))
            if twin[0] != "ok" or twin[1] is None:
                raise Violation("regenerate_failed", dict(where, outcome=twin[:2], stage="expected JSON"))
            want_applied = apply(twin[1], twin_record)
            want_snap = _guard(lambda: _snapshot(twin_record))
        if applied != want_applied:
            raise Violation("apply_outcome", dict(where, original=want_applied, regenerated=applied))
        if snap[0] != want_snap[0]:
            raise Violation("effects", dict(where, original=want_snap[:2] if want_snap[0] == "exc" else "ok",
                                            regenerated=snap[:2] if snap[0] == "exc" else "ok"))
        if snap[0] == "ok":
            _compare_text("effects", snap[1], want_snap[1], where)
        _compare_text("json_identity", _dumps(again.to_json()), text, dict(where, stage="post"))
        current_text = text
    count = sum(len(hits) for hits in original.hits_by_cds.values())
    classes.add(f"steps_{len(spec['steps'])}")
    classes.add(f"hits_{min(count, 3)}")
    if applied0[0] == "exc":
        classes.add("apply_raises_" + str(applied0[1]))
    return {"nontrivial": count >= 2 or changed, "classes": sorted(classes)}


@st.composite
def rre_specs(draw) -> dict:
    length = draw(st.integers(600, 1800))
    genes = draw(gen.gene_layout(length, False, max_genes=5, min_genes=2, size_hint=300, allow_span=False))
    kept, seen = [], set()
    for gene in genes:
        parts = gene["loc"]["parts"]
        if len(parts) != 1:
            continue
        parts[0][1] -= (parts[0][1] - parts[0][0]) % 3
        key = (parts[0][0], parts[0][1], gene["loc"]["strand"])
        if parts[0][1] - parts[0][0] >= 60 and key not in seen:
            seen.add(key)
            kept.append(gene)
    genes = kept or [{"name": "g0", "loc": {"parts": [[3, 243]], "strand": 1, "kind": "simple"}}]
    thresholds = [[25.0, 50], [25.0, 10], [30.0, 10], [35.0, 10], [35.0, 50], [30.0, 20], [25.5, 10], [40.0, 12], [20.0, 5]]
    cutoff, min_length = draw(st.sampled_from([[25.0, 10], [25.0, 10], [30.0, 10], [30.0, 20], [35.0, 10], [25.0, 50]]))
    hsps = []
    for _ in range(draw(st.integers(1, 8))):
        gene = draw(st.sampled_from(genes))
        amino = (gene["loc"]["parts"][0][1] - gene["loc"]["parts"][0][0]) // 3 - 1
        size = min(amino, draw(st.sampled_from([9, 10, 11, 12, 19, 20, 21, 30, 50, 60, 60])))
        start = draw(st.integers(0, amino - size))
        hsps.append({"gene": gene["name"], "hit_id": draw(st.sampled_from(sorted(RRE_NAMES))), "s": start, "e": start + size,
                     "ev": draw(st.sampled_from([1e-40, 3.3e-09, 1e-05, 0.001, 0.2])),
                     "sc": draw(st.sampled_from([20.0, 25.5, 28.0, 30.0, 30.5, 32.0, 35.0, 35.5, 40.0, 40.0, 41.0, 100.5])),
                     "desc": draw(st.sampled_from(["RRE-containing protein in a lanthipeptide cluster", "x"]))})
    candidates = {}
    for number in range(1, draw(st.integers(1, 3)) + 1):
        candidates[str(number)] = draw(st.lists(st.sampled_from([g["name"] for g in genes]), min_size=1, unique=True))
    changes = [{"kind": "schema", "values": [2, 0, "1", "missing", None]},
               {"kind": "record_id", "values": ["rec2", "rec1 ", "REC1"]},
               {"kind": "thresholds", "values": thresholds}, {"kind": "thresholds", "values": thresholds}]
    steps = draw(simple_history(RRE_LEVELS, changes, change_odds=2))
    for step in steps:
        step.pop("src")
    return {"L": length, "genes": genes, "rid": "rec1", "cutoff": cutoff, "min_length": min_length, "hsps": hsps,
            "candidates": candidates, "steps": steps}


# further modules (pfam2go, tfbs_finder, t2pks, terpene, active site finder, smcog trees, the four RiPP precursor
# modules, cassis, ...) live in the helper module; it fetches the shared helpers above lazily
from vlib import c11_modules as more  # noqa: E402  pylint: disable=wrong-import-position

SUBCHECKS = {
    "rules": check_rules,
    "sideload": check_sideload,
    "nrps": check_nrps,
    "hmmer": check_hmmer,
    "hmmresult": check_hmmresult,
    "tta": check_tta,
    "rre": check_rre,
}
SUBCHECKS.update(more.SUBCHECKS)


def _sig_definition_order(sub: str, spec: dict, clause: str, detail) -> bool:
    """ rule detection results whose only difference after a save/regenerate cycle is the order of the profile
        names inside one definition_domains list (or of the CORE gene functions written from it) """
    if sub != "rules" or clause not in ("json_definition_order", "effects_definition_order"):
        return False
    if not any(len(found) >= 2 for found in spec["hits"].values()):
        return False
    path = str((detail or {}).get("difference", [""])[0])
    return "definition_domains" in path or "gene_functions" in path


SIGNATURES = {"definition_domains_order": _sig_definition_order}
SIGNATURES.update(more.SIGNATURES)


def run(ctx) -> None:
    shards = ctx.pick(8, 16)
    ctx.hyp("rules", rules_specs(), max_examples=ctx.pick(600, 12000), shards=shards)
    ctx.hyp("sideload", sideload_specs(), max_examples=ctx.pick(500, 12000), shards=shards)
    ctx.hyp("nrps", nrps_specs(), max_examples=ctx.pick(500, 12000), shards=shards)
    ctx.hyp("hmmer", hmmer_specs(), max_examples=ctx.pick(700, 15000), shards=shards)
    ctx.hyp("tta", tta_specs(), max_examples=ctx.pick(700, 15000), shards=shards)
    ctx.hyp("hmmresult", hmmresult_specs(), max_examples=ctx.pick(1000, 16000), shards=shards)
    ctx.hyp("rre", rre_specs(), max_examples=ctx.pick(600, 12000), shards=shards)
    more.run(ctx, 16)
