""" C19 - region overview layout data is complete, non-overlapping and in range """

from __future__ import annotations

import collections

from hypothesis import strategies as st

from vlib import gen, ring
from vlib.build import make_cds, make_protocluster, make_record, to_loc
from vlib.runner import Violation, code_under_test

PROPERTY_ID = "C19"
LEVEL = "exploration"
RULE = ("One case = one record (40..3000 bases, 3 of 4 circular) with 0-8 protoclusters (rule-like: symmetric "
        "neighbourhood, clipped at the ends of a linear record, whole-record [0:L) or the two-part L-1 form when the "
        "neighbourhood meets itself; sideloaded: asymmetric neighbourhoods; the core location is on the forward strand, "
        "the reverse strand - its parts then in Biopython's reversed order when it spans the origin - or has strand 0 / "
        "no strand, 3:3:1:1), 0-3 subregions (plain or sideloaded, "
        "optionally the whole record) and 0-12 genes (both strands, multi-exon, origin-spanning, genes lying in the "
        "intersection of two cores and marked as core genes of both products so that chemical hybrids form). All areas "
        "are drawn by construction on a window [0,W) with boundary-biased coordinates anchored at earlier edges "
        "(equal starts/ends, touching, gaps of 1 and 2, nesting) and the window is then rotated onto the ring: shape "
        "'cross' puts the origin inside the window, 'whole' makes W = L and usually adds an area that covers the "
        "whole record, 'free' rotates arbitrarily, 'line' is a linear record. The real create_candidate_clusters / "
        "create_regions build the regions (a failure there is counted as excluded, it belongs to C05/C06); every "
        "region of the record is judged on build_area_rows and on js.convert_regions. A case is non-trivial when a "
        "region has >= 3 drawn pieces on >= 2 rows or when an origin-related path is taken (one of the branches of "
        "adjust_cross_origin_area, the post-origin offset, a shifted or split gene); each branch of "
        "adjust_cross_origin_area (no core / core over the origin / right neighbourhood / left neighbourhood, each "
        "as 'shift' in an origin-crossing region and as 'split' in a whole-record region) has its own class counter "
        "and the run fails with a harness error if one of them is never reached. distinct = sha1 of the spec.")
ASSUMPTIONS = [
    "the region objects (location, candidate clusters, subregions, gene children) produced by create_candidate_clusters/"
    "create_regions are the input of this property; their correctness is C05/C06/C08",
    "area coordinates are 0-based half-open (start = first base, end = one past the last), gene coordinates are 1-based "
    "inclusive; the announced range is js_region start/end, whose start is accepted as either convention (the code "
    "announces region.start + 1 for ordinary regions and region.start for origin-crossing ones)",
    "two areas overlap when they share a base; areas that merely touch (end == start) do not overlap",
    "a candidate cluster is displayed when it is not of kind 'single' or when the region has subregions (build_area_rows "
    "docstring/comment and the javascript); hidden singles must not be drawn",
    "an area is identified by kind, product/label and the bases it covers; a split area may carry its label on one half only",
    "a multi-exon gene that does not span the origin but has exons in both parts of an origin-crossing region (its intron "
    "contains everything outside the region) has no sensible drawing; such genes are counted and not judged",
]

PRODUCTS = ["pa", "pb", "pc", "pd"]
BRANCHES = ["nocore", "core", "right", "left"]
_STATE: dict = {}


# --------------------------------------------------------------------------- model helpers (pure)

def _forward_parts(loc: dict) -> list:
    """ the parts in the order of the genome (a reverse-strand location lists them the other way round) """
    return list(reversed(loc["parts"])) if loc.get("strand") == -1 else loc["parts"]


def _arc_of(loc: dict) -> tuple:
    """ (start, length, crosses) of an area location given in Biopython order (reverse strand: parts reversed) """
    parts = _forward_parts(loc)
    return parts[0][0], sum(e - s for s, e in parts), len(parts) == 2


def _gene_hull(loc: dict, length: int) -> tuple:
    """ (first base along the genome, hull length, spans origin) of a gene """
    parts = loc["parts"]
    if gen.is_span(loc):
        forward = parts if loc.get("strand") != -1 else list(reversed(parts))
        first, last = forward[0][0], forward[-1][1]
        size = (last - first) % length or length
        return first, size, True
    first = min(p[0] for p in parts)
    last = max(p[1] for p in parts)
    return first, last - first, False


def _ring_bases(start: int, end: int, length: int) -> frozenset:
    return frozenset(x % length for x in range(start, end))


def _branch_of(loc: dict, core: dict | None) -> str:
    """ which branch of adjust_cross_origin_area an origin-crossing area should take """
    if core is None:
        return "nocore"
    if len(core["parts"]) == 2:
        return "core"
    # the core lies in one part of the extent: before the origin -> the right neighbourhood crosses
    if core["parts"][0][0] >= loc["parts"][0][0]:
        return "right"
    return "left"


# --------------------------------------------------------------------------- building the real objects

def _options():
    if "options" not in _STATE:
        from antismash.config import build_config
        from antismash.main import get_all_modules
        modules = get_all_modules()
        options = build_config([], isolated=True, modules=modules)
        options.all_enabled_modules = [module for module in modules if module.is_enabled(options)]
        _STATE["options"] = options
    return _STATE["options"]


def _build_record(spec: dict):
    """ returns (record, {id(protocluster): index}, {id(subregion): index}) or a class label if the
        candidate clusters / regions could not be created """
    from antismash.common.secmet.features.protocluster import SideloadedProtocluster
    from antismash.common.secmet.features.subregion import SideloadedSubRegion, SubRegion
    from antismash.common.secmet.qualifiers.gene_functions import GeneFunction
    record = make_record(spec["L"], spec["circular"])
    record.record_index = 1
    for gene in spec["genes"]:
        cds = make_cds(gene["loc"], gene["name"])
        for product in gene.get("core_for", []):
            cds.gene_functions.add(GeneFunction.CORE, "verif", "desc", product)
        record.add_cds_feature(cds)
    protos = {}
    for index, proto in enumerate(spec["protoclusters"]):
        if proto["sideloaded"]:
            feature = SideloadedProtocluster(to_loc(proto["core"]), to_loc(proto["loc"]), "sidetool", proto["product"])
        else:
            feature = make_protocluster(proto["core"], proto["loc"], product=proto["product"])
        record.add_protocluster(feature)
        protos[id(feature)] = index
    subs = {}
    for index, sub in enumerate(spec["subregions"]):
        if sub["sideloaded"]:
            feature = SideloadedSubRegion(to_loc(sub["loc"]), "sidetool", label=sub["label"])
        else:
            feature = SubRegion(to_loc(sub["loc"]), tool="verif", label=sub["label"])
        record.add_subregion(feature)
        subs[id(feature)] = index
    try:
        record.create_candidate_clusters()
    except Exception:  # pylint: disable=broad-except
        return "excluded_candidate_creation_failed", None, None
    try:
        record.create_regions()
    except Exception:  # pylint: disable=broad-except
        return "excluded_region_creation_failed", None, None
    return record, protos, subs


# --------------------------------------------------------------------------- the oracle

class _Problems:
    """ collects every disagreement of a case; the one reported is the first that no known signature
        explains (so that a known defect does not hide a new one in the same case) """
    def __init__(self, spec: dict) -> None:
        self.spec = spec
        self.found: list = []

    def add(self, clause: str, detail: dict) -> None:
        self.found.append((clause, detail))

    def finish(self) -> None:
        if not self.found:
            return
        for clause, detail in self.found:
            if not any(sig("layout", self.spec, clause, detail) for sig in SIGNATURES.values()):
                raise Violation(clause, detail)
        raise Violation(*self.found[0])


def _region_model(region, length: int, circular: bool) -> dict:
    parts = [[int(p.start), int(p.end)] for p in region.location.parts]
    if len(parts) == 2:
        return {"mode": "cross", "parts": parts, "lo": parts[0][0], "hi": length + parts[1][1]}
    if circular and parts == [[0, length]]:
        return {"mode": "whole", "parts": parts, "lo": 0, "hi": length}
    return {"mode": "plain", "parts": parts, "lo": parts[0][0], "hi": parts[0][1]}


def _expected_items(spec: dict, region, protos: dict, subs: dict) -> tuple:
    """ (what has to be drawn: dicts with kind, label, loc, core, plus bookkeeping; number of hidden singles) """
    items = []
    seen = set()
    has_subs = bool(region.subregions)
    hidden = 0
    for candidate in region.candidate_clusters:
        kind = str(candidate.kind)
        for proto in candidate.protoclusters:
            if id(proto) in seen:
                continue
            seen.add(id(proto))
            info = spec["protoclusters"][protos[id(proto)]]
            items.append({"kind": "protocluster", "label": info["product"], "loc": info["loc"], "core": info["core"],
                          "sideloaded": info["sideloaded"], "index": protos[id(proto)]})
        if kind == "single" and not has_subs:
            hidden += 1
            continue
        loc = ring.from_bio(candidate.location)
        items.append({"kind": "candidatecluster", "label": kind, "loc": {"parts": loc["parts"], "strand": 1},
                      "core": None, "single": kind == "single",
                      "core_loc": {"parts": ring.from_bio(candidate.core_location)["parts"], "strand": 1}})
    for sub in region.subregions:
        info = spec["subregions"][subs[id(sub)]]
        items.append({"kind": "subregion", "label": info["label"], "loc": info["loc"], "core": None,
                      "sideloaded": info["sideloaded"]})
    return items, hidden


def _item_key(kind: str, label: str, extent: frozenset, core: frozenset) -> tuple:
    return (kind, label, tuple(sorted(extent)), tuple(sorted(core)))


def _compact(bases) -> list:
    """ sorted bases as a short list of [first, last+1) runs, for messages """
    runs = []
    for base in sorted(bases):
        if runs and runs[-1][1] == base:
            runs[-1][1] = base + 1
        else:
            runs.append([base, base + 1])
    return runs


def _extent_pieces(item: dict, model: dict, length: int) -> list:
    """ where the full extent of an area has to be drawn: [(neighbouring_start, neighbouring_end), ...] """
    start, size, crossing = _arc_of(item["loc"])
    if model["mode"] == "cross":
        shifted = model["lo"] + (start - model["lo"]) % length
        return [(shifted, shifted + size)]
    if crossing:
        return [(start, length), (0, start + size - length)]
    return [(start, start + size)]


def _describe(item: dict) -> dict:
    described = {key: item.get(key) for key in ("kind", "label", "loc", "core", "sideloaded", "core_loc")
                 if item.get(key) is not None}
    if len(item["loc"]["parts"]) == 2:
        described["branch"] = _branch_of(item["loc"], item["core"] or item.get("core_loc"))
    return described


def _label_of(piece: dict) -> str:
    """ the identifying part of an area's product text (candidates: 'CC 3: neighbouring' -> 'neighbouring') """
    if piece["kind"] == "candidatecluster":
        return piece["product"].rsplit(": ", 1)[-1]
    return piece["product"]


def _check_areas(problems: _Problems, areas: list, model: dict, items: list, length: int, where: str) -> dict:
    """ the area clauses for one region; returns counters for classes """
    mode, low, high = model["mode"], model["lo"], model["hi"]
    context = {"where": where, "mode": mode, "region": model["parts"], "L": length}
    before = len(problems.found)
    pieces = []
    for raw in areas:
        piece = dict(raw)
        bad = [key for key in ("start", "end", "height") if not isinstance(piece.get(key), int)
               or isinstance(piece.get(key), bool)]
        if bad or not isinstance(piece.get("kind"), str):
            problems.add("area_malformed", {**context, "area": raw})
            return {}
        piece.setdefault("neighbouring_start", piece["start"])
        piece.setdefault("neighbouring_end", piece["end"])
        piece.setdefault("group", 0)
        piece.setdefault("product", "")
        pieces.append(piece)
    counts = {"pieces": len(pieces), "rows": len({p["height"] for p in pieces}),
              "split": len({p["group"] for p in pieces if p["group"]})}

    # ---- same row => disjoint full extents (judged on everything, whatever else is wrong)
    by_height = collections.OrderedDict()
    for piece in pieces:
        by_height.setdefault(piece["height"], []).append(piece)
    for height, members in by_height.items():
        ordered = sorted(members, key=lambda p: (p["neighbouring_start"], p["neighbouring_end"]))
        for index, first in enumerate(ordered):
            for second in ordered[index + 1:]:
                if second["neighbouring_start"] >= first["neighbouring_end"]:
                    continue
                if first["neighbouring_start"] == first["neighbouring_end"]:
                    continue
                if second["neighbouring_start"] == second["neighbouring_end"]:
                    continue
                problems.add("row_overlap", {**context, "height": height, "first": first, "second": second,
                                             "row_in_output_order": [[p["neighbouring_start"], p["neighbouring_end"]]
                                                                     for p in members]})

    # ---- every piece: core inside the extent, extent inside the announced range
    remaining_items = list(items)
    dropped: set = set()
    for position, piece in enumerate(pieces):
        clause = None
        if not piece["neighbouring_start"] <= piece["start"] <= piece["end"] <= piece["neighbouring_end"]:
            clause = "core_inside_extent"
        elif piece["neighbouring_start"] < low or piece["neighbouring_end"] > high:
            clause = "area_in_range"
        if clause is None or position in dropped:
            continue
        # set the piece, its other half and the thing they draw aside, then go on with the rest
        members = [i for i, other in enumerate(pieces)
                   if i == position or (piece["group"] and other["group"] == piece["group"])]
        extents = {(pieces[i]["neighbouring_start"], pieces[i]["neighbouring_end"]) for i in members}
        feature = None
        labels = {_label_of(pieces[i]) for i in members if pieces[i]["product"]}
        possible = [item for item in remaining_items if item["kind"] == piece["kind"] and labels <= {item["label"]}]
        for exact in (True, False):
            for item in possible:
                wanted = set(_extent_pieces(item, model, length))
                if feature is None and (extents == wanted if exact else extents & wanted):
                    feature = item
        problems.add(clause, {**context, "area": piece, "range": [low, high],
                              "feature": _describe(feature) if feature else None})
        if feature is None:
            return counts
        remaining_items.remove(feature)
        dropped.update(members)
    pieces = [piece for i, piece in enumerate(pieces) if i not in dropped]
    items = remaining_items

    # ---- linked halves
    groups = collections.OrderedDict()
    drawn = []
    for piece in pieces:
        if piece["group"]:
            groups.setdefault(piece["group"], []).append(piece)
        else:
            drawn.append([piece])
    for members in groups.values():
        fine = len(members) == 2
        if fine:
            first, second = sorted(members, key=lambda p: p["neighbouring_start"])
            fine = (first["kind"] == second["kind"] and first["height"] == second["height"]
                    and first["neighbouring_start"] == 0 and second["neighbouring_end"] == length
                    and first["neighbouring_end"] <= second["neighbouring_start"]
                    and (not first["product"] or not second["product"] or first["product"] == second["product"]))
        if not fine:
            # each split feature gives exactly two halves with a group of their own: more than two members means
            # that different features share one group identifier
            problems.add("linked_halves", {**context, "areas_sharing_the_group": len(members), "members": members})
        drawn.append(members)
    if len(problems.found) > before and any(c == "linked_halves" for c, _ in problems.found[before:]):
        return counts

    # ---- exactly once: the multiset of drawn things equals the multiset of things to draw
    got: collections.Counter = collections.Counter()
    got_examples = {}
    for members in drawn:
        extent = frozenset().union(*[_ring_bases(p["neighbouring_start"], p["neighbouring_end"], length) for p in members])
        core = frozenset().union(*[_ring_bases(p["start"], p["end"], length) for p in members])
        if sum(p["neighbouring_end"] - p["neighbouring_start"] for p in members) != len(extent):
            problems.add("drawn_twice", {**context, "members": members})
        labels = sorted({_label_of(p) for p in members if p["product"]})
        label = labels[0] if labels else ""
        kind = members[0]["kind"]
        key = _item_key(kind, label, extent, core)
        got[key] += 1
        got_examples[key] = members
    want: collections.Counter = collections.Counter()
    want_examples = {}
    for item in items:
        extent = ring.bases(item["loc"])
        core = ring.bases(item["core"]) if item["core"] is not None else extent
        key = _item_key(item["kind"], item["label"], extent, core)
        want[key] += 1
        want_examples[key] = item
    if got != want:
        missing = [{"feature": _describe(want_examples[k]), "times": n} for k, n in sorted((want - got).items())]
        extra = [{"kind": k[0], "label": k[1], "extent": _compact(k[2]), "core": _compact(k[3]),
                  "areas": got_examples[k], "times": n} for k, n in sorted((got - want).items())]
        problems.add("drawn_exactly_once", {**context, "not_drawn": missing[:6], "not_in_region": extra[:6]})
        return counts

    # ---- an origin-crossing region: nothing is split, positions after the origin are +L
    if mode == "cross":
        expected: collections.Counter = collections.Counter()
        for item in items:
            start, size, _ = _arc_of(item["loc"])
            n_start = low + (start - low) % length
            if item["core"] is not None:
                c_start, c_size, _ = _arc_of(item["core"])
                c_start = n_start + (c_start - start) % length
            else:
                c_start, c_size = n_start, size
            expected[(item["kind"], n_start, c_start, c_start + c_size, n_start + size)] += 1
        observed = collections.Counter((p["kind"], p["neighbouring_start"], p["start"], p["end"], p["neighbouring_end"])
                                       for p in pieces)
        if expected != observed:
            problems.add("shifted_position", {**context,
                                              "expected_not_seen": sorted((expected - observed).elements())[:6],
                                              "seen_not_expected": sorted((observed - expected).elements())[:6]})
    return counts


def _check_genes(problems: _Problems, orfs: list, region, model: dict, spec: dict, js_range: tuple) -> list:
    """ the gene clauses for one region, returns class labels """
    length = spec["L"]
    mode = model["mode"]
    by_name = {gene["name"]: gene for gene in spec["genes"]}
    context = {"mode": mode, "region": model["parts"], "L": length, "announced": list(js_range)}
    classes = []
    by_tag = collections.OrderedDict()
    for orf in orfs:
        for key in ("start", "end"):
            orf[key] = int(orf[key])
        by_tag.setdefault(orf["locus_tag"], []).append(orf)
    children = [cds.get_name() for cds in region.cds_children]
    wanted_tags = set()
    order_keys = []
    for name in children:
        loc = by_name[name]["loc"]
        first, size, spans = _gene_hull(loc, length)
        got = by_tag.get(name, [])
        halves = by_tag.get(name + "_split", [])
        wanted_tags.update((name, name + "_split"))
        if len(got) != 1 or len(halves) > 1:
            problems.add("gene_exactly_once", {**context, "gene": name, "times": len(got), "split_times": len(halves)})
            continue
        pieces = got + halves
        straddles = (mode == "cross" and not spans
                     and not any(ring.contains({"parts": [part]}, loc) for part in model["parts"]))
        if straddles:
            classes.append("unjudged_gene_with_exons_on_both_sides_of_the_region_gap")
            continue
        for orf in pieces:
            if not js_range[0] <= orf["start"] <= orf["end"] <= js_range[1]:
                problems.add("gene_in_range", {**context, "gene": name, "location": loc,
                                               "orf": {k: orf[k] for k in ("start", "end", "locus_tag")}})
        intron_over_origin = spans and not any(part[0] == 0 or part[1] == length for part in loc["parts"])
        if intron_over_origin and mode in ("cross", "whole"):
            classes.append(f"gene_intron_over_origin_{'shift' if mode == 'cross' else 'split'}")
        if halves:
            classes.append("gene_split")
            one, two = got[0], halves[0]
            linked = bool(one.get("group")) and one.get("group") == two.get("group")
            joined = one["end"] == js_range[1] and two["start"] == js_range[0] and mode == "whole"
            if not (linked and joined and spans):
                problems.add("gene_linked_halves", {**context, "gene": name, "location": loc,
                                                    "orfs": [{k: o.get(k) for k in ("start", "end", "locus_tag", "group")}
                                                             for o in pieces]})
                continue
        elif spans and mode != "cross":
            problems.add("gene_linked_halves", {**context, "gene": name, "location": loc,
                                                "problem": "an origin-spanning gene drawn as one piece in a region "
                                                           "that does not continue past the origin",
                                                "orfs": [{k: o.get(k) for k in ("start", "end", "locus_tag")} for o in pieces]})
            continue
        # position: the bases the drawn pieces cover are the gene's hull, positions after the origin being +L
        covered = frozenset().union(*[_ring_bases(o["start"] - 1, o["end"], length) for o in pieces])
        if covered != _ring_bases(first, first + size, length) or sum(o["end"] - o["start"] + 1 for o in pieces) != size:
            problems.add("gene_position", {**context, "gene": name, "location": loc,
                                           "orfs": [{k: o.get(k) for k in ("start", "end", "locus_tag")} for o in pieces]})
        if mode == "cross":
            offset = (first - model["lo"]) % length
            order_keys.append((offset, got[0]["start"], name))
            if spans:
                classes.append("gene_cross_shift")
            elif first < model["lo"]:
                classes.append("gene_post_origin_shift")
    # order along the drawing = order along the genome
    order_keys.sort()
    for (off1, start1, name1), (off2, start2, name2) in zip(order_keys, order_keys[1:]):
        if (off1 < off2 and not start1 < start2) or (off1 == off2 and start1 != start2):
            problems.add("gene_order", {**context, "genes": [name1, name2], "drawn_starts": [start1, start2],
                                        "genome_offsets_from_region_start": [off1, off2]})
    invented = [tag for tag in by_tag if tag not in wanted_tags]
    if invented:
        problems.add("gene_exactly_once", {**context, "not_in_region": invented[:5]})
    return classes


def check_layout(spec: dict) -> dict:
    from antismash.outputs.html import js
    from antismash.outputs.html.area_packing import build_area_rows
    length, circular = spec["L"], spec["circular"]
    record, protos, subs = _build_record(spec)
    if isinstance(record, str):
        return {"nontrivial": False, "classes": [record]}
    regions = record.get_regions()
    if not regions:
        return {"nontrivial": False, "classes": ["no_regions"]}
    try:
        with code_under_test("layout_total"):
            js_regions = js.convert_regions(record, _options(), {})
    except Violation as vio:
        # for the known-finding signature: areas of the record that cover the whole ring in two parts [a:L)+[0:a)
        full = []
        for region in regions:
            for area in list(region.candidate_clusters) + list(region.subregions) + region.get_unique_protoclusters():
                parts = ring.from_bio(area.location)["parts"]
                if len(parts) == 2 and parts[0][0] == parts[1][1]:
                    full.append({"kind": area.FEATURE_TYPE, "parts": parts})
        vio.detail["two_part_whole_ring_areas"] = full
        raise
    problems = _Problems(spec)
    if len(js_regions) != len(regions):
        raise Violation("region_count", {"regions": len(regions), "converted": len(js_regions)})
    classes = ["circular" if circular else "linear", f"regions_{min(len(regions), 4)}"]
    nontrivial = False
    for region, js_region in zip(regions, js_regions):
        model = _region_model(region, length, circular)
        mode = model["mode"]
        classes.append(f"region_{mode}")
        # announced range
        js_start, js_end = int(js_region["start"]), int(js_region["end"])
        if js_end != model["hi"] or js_start not in (model["lo"], model["lo"] + 1):
            problems.add("announced_range", {"mode": mode, "region": model["parts"], "L": length,
                                             "announced": [js_start, js_end], "model": [model["lo"], model["hi"]]})
        items, hidden = _expected_items(spec, region, protos, subs)
        with code_under_test("layout_total"):
            direct = build_area_rows(region, length, circular)
        found_before = len(problems.found)
        counts = _check_areas(problems, direct, model, items, length, "build_area_rows")
        if len(problems.found) == found_before:
            _check_areas(problems, js_region["clusters"], model, items, length, "convert_regions")
        classes.extend(_check_genes(problems, js_region["orfs"], region, model, spec, (js_start, js_end)))

        # what was reached
        origin_path = False
        for item in items:
            crossing = len(item["loc"]["parts"]) == 2
            if crossing and mode in ("cross", "whole"):
                branch = _branch_of(item["loc"], item["core"] or item.get("core_loc"))
                prefix = "adjust_candidate" if item["kind"] == "candidatecluster" else "adjust"
                classes.append(f"{prefix}_{branch}_{'shift' if mode == 'cross' else 'split'}")
                origin_path = True
            elif mode == "cross" and item["loc"]["parts"][0][0] < model["lo"]:
                classes.append("post_origin_offset")
                origin_path = True
            if item.get("sideloaded"):
                classes.append(f"sideloaded_{item['kind']}")
            if item["kind"] == "protocluster" and item["core"].get("strand") != 1:
                strand_name = {-1: "reverse", 0: "zero", None: "none"}[item["core"].get("strand")]
                spanning = len(item["core"]["parts"]) == 2
                classes.append(f"core_strand_{strand_name}{'_over_origin' if spanning else ''}")
                if spanning and mode in ("cross", "whole"):
                    classes.append(f"core_strand_{strand_name}_over_origin_{'shift' if mode == 'cross' else 'split'}")
        # areas that start out with the same four coordinates (extent and core; extent twice without a core)
        if mode in ("cross", "whole"):
            by_coordinates: dict = {}
            for item in items:
                if len(item["loc"]["parts"]) != 2:
                    continue
                core = _forward_parts(item["core"] or item["loc"])
                key = (item["loc"]["parts"][0][0], core[0][0], core[-1][1], item["loc"]["parts"][1][1])
                by_coordinates.setdefault(key, []).append(item["kind"])
            for kinds_seen in by_coordinates.values():
                if len(kinds_seen) > 1:
                    how = "split" if mode == "whole" else "shift"
                    classes.append(f"twins_{how}_{'same_kind' if len(set(kinds_seen)) == 1 else 'mixed_kinds'}")
        if region.subregions:
            classes.append("subregions_with_candidates" if region.candidate_clusters else "subregions_only")
            if any(item.get("single") for item in items):
                classes.append("single_candidate_shown")
        if hidden:
            classes.append("single_candidate_hidden")
        kinds = {item["label"] for item in items if item["kind"] == "candidatecluster"}
        classes.extend(f"candidate_{kind}" for kind in sorted(kinds))
        if counts:
            classes.append(f"rows_{min(counts['rows'], 6)}")
            classes.append(f"pieces_{min(counts['pieces'] // 3 * 3, 12)}plus")
            if counts["pieces"] >= 3 and counts["rows"] >= 2:
                nontrivial = True
        if origin_path or any(c in classes for c in ("gene_split", "gene_cross_shift", "gene_post_origin_shift")):
            nontrivial = True
    problems.finish()
    return {"nontrivial": nontrivial, "classes": sorted(set(classes))}


SUBCHECKS = {"layout": check_layout}


# --------------------------------------------------------------------------- known findings

def _sig_candidate_core_branch(sub: str, spec: dict, clause: str, detail: dict) -> bool:
    """ an origin-crossing candidate cluster whose core lies on one side of the origin: its full extent
        (neighbouring_*) is placed correctly but start/end are moved as if they were core coordinates """
    if sub != "layout" or clause != "core_inside_extent" or not isinstance(detail, dict):
        return False
    feature = detail.get("feature") or {}
    area = detail.get("area") or {}
    return (spec.get("circular") is True and detail.get("mode") in ("cross", "whole")
            and area.get("kind") == "candidatecluster" and feature.get("kind") == "candidatecluster"
            and feature.get("branch") in ("left", "right"))


def _sig_crossing_protocluster_row(sub: str, spec: dict, clause: str, detail: dict) -> bool:
    """ origin-crossing region: an origin-crossing protocluster is put last into a row that already holds two or more
        protoclusters; it does not overlap the first of them but does overlap a later one """
    if sub != "layout" or clause != "row_overlap" or detail.get("mode") != "cross":
        return False
    length = detail["L"]
    first, second = detail["first"], detail["second"]
    if first["kind"] != "protocluster" or second["kind"] != "protocluster":
        return False
    row = detail["row_in_output_order"]
    crossing = [second["neighbouring_start"], second["neighbouring_end"]]
    other = [first["neighbouring_start"], first["neighbouring_end"]]
    if not (crossing[0] < length < crossing[1] and other[1] <= length):
        return False
    if len(row) < 3 or row[-1] != crossing or row[0] == other:
        return False
    head = row[0]
    return head[1] <= crossing[0] and head[1] <= length     # the first one in the row is clear of it


def _sig_sideloaded_neighbourhood_side(sub: str, spec: dict, clause: str, detail: dict) -> bool:
    """ an origin-crossing sideloaded protocluster with unequal neighbourhoods whose core lies on one side of the
        origin: the side is guessed from 'length - core_start < core_end' and the guess is wrong """
    if sub != "layout" or clause != "core_inside_extent" or not isinstance(detail, dict):
        return False
    feature = detail.get("feature") or {}
    area = detail.get("area") or {}
    if area.get("kind") != "protocluster" or feature.get("kind") != "protocluster" or not feature.get("sideloaded"):
        return False
    if feature.get("branch") not in ("left", "right") or detail.get("mode") not in ("cross", "whole"):
        return False
    core_start, core_end = feature["core"]["parts"][0]
    guessed_right = detail["L"] - core_start < core_end
    return guessed_right != (feature["branch"] == "right")


def _sig_whole_ring_two_parts(sub: str, spec: dict, clause: str, detail: dict) -> bool:
    """ an area (in practice a candidate cluster built by connect_locations) covers the whole ring as
        [a:L)+[0:a): Area.crosses_origin() compares start > end, both are a, build_area_rows asserts """
    if sub != "layout" or clause != "layout_total" or not isinstance(detail, dict):
        return False
    return (detail.get("exception") == "AssertionError"
            and str(detail.get("where", "")).endswith("area_packing.py:add_area_from_feature")
            and bool(detail.get("two_part_whole_ring_areas")))


SIGNATURES: dict = {
    "whole_ring_two_parts": _sig_whole_ring_two_parts,
    "sideloaded_neighbourhood_side": _sig_sideloaded_neighbourhood_side,
    "crossing_protocluster_row": _sig_crossing_protocluster_row,
    "candidate_core_branch": _sig_candidate_core_branch,
}


# --------------------------------------------------------------------------- generator

def _genome_arc(origin: int, length: int, u_start: int, u_end: int) -> dict:
    size = u_end - u_start
    assert 0 < size <= length
    if size == length:
        return {"parts": [[0, length]], "strand": 1}
    return ring.arc_to_loc((origin + u_start) % length, size, length, 1)


def _genome_exons(origin: int, length: int, exons: list, strand: int) -> dict:
    """ exons given along the window -> gene location in Biopython order """
    parts = []
    for u_start, u_end in exons:
        parts.extend(ring.arc_to_loc((origin + u_start) % length, u_end - u_start, length, 1)["parts"])
    if strand == -1:
        parts.reverse()
    loc = {"parts": parts, "strand": strand}
    loc["kind"] = "span" if gen.is_span(loc) else ("simple" if len(parts) == 1 else "multi")
    return loc


@st.composite
def layouts(draw):
    circular = draw(st.sampled_from([True, True, True, False]))
    length = draw(st.one_of(st.integers(40, 120), st.integers(40, 500), st.integers(40, 3000)))
    if not circular:
        shape, width, origin = "line", length, 0
    else:
        shape = draw(st.sampled_from(["cross", "cross", "cross", "whole", "whole", "free"]))
        if shape == "whole":
            width, origin = length, draw(gen.coord(0, length - 1))
        elif shape == "cross":
            width = draw(st.integers(max(20, length // 4), length - 1))
            origin = length - draw(gen.coord(1, width - 1))
        else:
            width = draw(st.integers(20, length))
            origin = draw(st.integers(0, length - 1))
    cap = max(2, width // draw(st.sampled_from([3, 6, 12])))
    anchors: set = {0, width}
    if circular:
        anchors.add((-origin) % length)   # the origin, seen from the window

    def point(low: int, high: int) -> int:
        near = tuple(x for a in sorted(anchors) for x in (a, a + 1) if low - 1 <= x <= high + 1)
        return draw(gen.coord(low, high, anchors=near[:40]))

    protoclusters = []
    unrolled_cores = []
    for _ in range(draw(st.one_of(st.integers(0, 3), st.integers(0, 8)))):
        c_start = point(0, width - 1)
        c_end = point(c_start + 1, min(width, c_start + max(3, cap)))
        sideloaded = draw(st.integers(0, 3)) == 0
        core = _genome_arc(origin, length, c_start, c_end)
        # the strand of the core location: a core derived from reverse-strand genes / read back from a core_location
        # qualifier is on the reverse strand, its parts then come in Biopython's reversed order when it spans the
        # origin (join{[0:20](-), [980:1000](-)}); strand 0 and no strand are accepted as well.  Only the core:
        # CDSCollection insists on a forward surrounding location when that spans the origin.
        core_strand = draw(st.sampled_from([1, 1, 1, -1, -1, -1, 0, None]))
        if core_strand != 1:
            core = {"parts": list(reversed(core["parts"])) if core_strand == -1 else core["parts"],
                    "strand": core_strand}
        full = circular and width == length and not sideloaded and draw(st.integers(0, 5)) == 0
        if full:
            forward = _forward_parts(core)
            if len(forward) == 2 and forward[0][0] - forward[1][1] >= 2:
                first, last = forward[0][0], forward[1][1]
                mid = (first - last) // 2 + last
                loc = {"parts": [[mid, length], [0, mid - 1]], "strand": 1}
            elif len(forward) == 2:
                loc = {"parts": [list(p) for p in forward], "strand": 1}
            else:
                loc = {"parts": [[0, length]], "strand": 1}
            e_start, e_end = 0, width
        else:
            if sideloaded:
                # independent left and right neighbourhoods, now and then much longer than the core
                far = width if draw(st.integers(0, 2)) == 0 else cap
                e_start = point(max(0, c_start - far), c_start)
                e_end = point(c_end, min(width, c_end + far))
                if circular and e_end - e_start == length and len(core["parts"]) == 2:
                    e_start, e_end = c_start, c_end
            else:
                reach = draw(st.one_of(st.sampled_from([0, 1, 2]), st.integers(0, cap)))
                if circular:
                    reach = min(reach, c_start, width - c_end)
                e_start, e_end = max(0, c_start - reach), min(width, c_end + reach)
                if circular and e_end - e_start == length and len(core["parts"]) == 2:
                    e_start, e_end = c_start, c_end
            loc = _genome_arc(origin, length, e_start, e_end)
        anchors.update((c_start, c_end, e_start, e_end))
        unrolled_cores.append((c_start, c_end))
        protoclusters.append({"core": core, "loc": loc, "product": draw(st.sampled_from(PRODUCTS)),
                              "sideloaded": sideloaded})

    subregions = []
    count = draw(st.sampled_from([0, 0, 0, 1, 1, 2, 3]))
    if not protoclusters and not count:
        count = 1
    origin_seen = (-origin) % length if circular else 0     # where the origin lies in the window
    for index in range(count):
        if shape == "whole" and index == 0 and draw(st.integers(0, 2)) > 0:
            s_start, s_end = 0, width
        elif 0 < origin_seen < width and draw(st.integers(0, 2)) == 0:
            # a subregion over the origin
            s_start = point(max(0, origin_seen - 3 * cap), origin_seen - 1)
            s_end = point(origin_seen + 1, min(width, origin_seen + 3 * cap))
        else:
            s_start = point(0, width - 1)
            s_end = point(s_start + 1, min(width, s_start + max(3, 3 * cap)))
        anchors.update((s_start, s_end))
        subregions.append({"loc": _genome_arc(origin, length, s_start, s_end), "label": f"s{index}",
                           "sideloaded": draw(st.integers(0, 2)) == 0})

    # twins: a second area with the very same coordinates as an existing one (two rules hitting the same genes with
    # the same extension, one annotation sideloaded twice, a subregion laid exactly over a protocluster), preferring
    # areas that cross the origin
    def pick(pool: list) -> int:
        crossing = [i for i, area in enumerate(pool) if len(area["loc"]["parts"]) == 2]
        return draw(st.sampled_from(crossing * 3 + list(range(len(pool)))))

    def copied(loc: dict) -> dict:
        return {"parts": [list(part) for part in loc["parts"]], "strand": loc.get("strand", 1)}

    eager = 1 if shape == "whole" else 3
    if protoclusters and draw(st.integers(0, eager)) == 0:
        index = pick(protoclusters)
        source = protoclusters[index]
        protoclusters.append({"core": copied(source["core"]), "loc": copied(source["loc"]),
                              "product": draw(st.sampled_from(PRODUCTS)), "sideloaded": source["sideloaded"]})
        unrolled_cores.append(unrolled_cores[index])
    if subregions and draw(st.integers(0, eager + 1)) == 0:
        source = subregions[pick(subregions)]
        subregions.append({"loc": copied(source["loc"]), "label": f"s{len(subregions)}",
                           "sideloaded": draw(st.integers(0, 2)) == 0})
    if protoclusters and draw(st.integers(0, eager + 2)) == 0:
        source = protoclusters[pick(protoclusters)]
        subregions.append({"loc": copied(source["loc"]), "label": f"s{len(subregions)}",
                           "sideloaded": draw(st.integers(0, 2)) == 0})

    genes: list = []
    seen: dict = {}

    def add_gene(loc: dict) -> dict:
        key = (tuple(map(tuple, loc["parts"])), loc["strand"])
        if key not in seen:
            seen[key] = {"loc": loc, "core_for": []}
            genes.append(seen[key])
        return seen[key]

    # genes shared by the cores of two protoclusters (chemical hybrids)
    for i, (s_one, e_one) in enumerate(unrolled_cores):
        for j in range(i + 1, len(unrolled_cores)):
            s_two, e_two = unrolled_cores[j]
            low, high = max(s_one, s_two), min(e_one, e_two)
            if high - low < 3 or protoclusters[i]["sideloaded"] or protoclusters[j]["sideloaded"]:
                continue
            if draw(st.integers(0, 2)) != 0:
                continue
            g_start = draw(st.integers(low, high - 3))
            g_end = draw(st.integers(g_start + 3, high))
            gene = add_gene(_genome_exons(origin, length, [[g_start, g_end]], draw(st.sampled_from([1, -1]))))
            for product in (protoclusters[i]["product"], protoclusters[j]["product"]):
                if product not in gene["core_for"]:
                    gene["core_for"].append(product)
    # genes inside the window
    for _ in range(draw(st.integers(0, 6))):
        g_start = point(0, width - 3)
        g_end = point(g_start + 3, min(width, g_start + max(3, cap)))
        exons = [[g_start, g_end]]
        if g_end - g_start >= 8 and draw(st.integers(0, 3)) == 0:
            cut_one = draw(st.integers(g_start + 3, g_end - 4))
            cut_two = draw(st.integers(cut_one + 1, g_end - 3))
            exons = [[g_start, cut_one], [cut_two, g_end]]
        loc = _genome_exons(origin, length, exons, draw(st.sampled_from([1, -1])))
        if not circular and gen.is_span(loc):
            continue
        add_gene(loc)
    # a gene whose INTRON contains the origin: no exon touches base 0 or base L (two or three exons, both strands),
    # kept close to the origin so that the areas drawn over the origin contain it
    if circular and 4 <= origin_seen <= width - 4 and draw(st.integers(0, 1)) == 0:
        gap_before = draw(st.sampled_from([1, 1, 2, 5]))
        gap_after = draw(st.sampled_from([1, 1, 2, 5]))
        e_one = max(3, origin_seen - gap_before)                   # end of the last exon before the origin
        s_two = min(width - 3, origin_seen + gap_after)            # start of the first exon after it
        s_one = point(max(0, e_one - max(3, cap)), e_one - 3)
        e_two = point(s_two + 3, min(width, s_two + max(3, cap)))
        exons = [[s_one, e_one], [s_two, e_two]]
        if e_one - s_one >= 8 and draw(st.integers(0, 2)) == 0:
            cut_one = draw(st.integers(s_one + 3, e_one - 4))
            cut_two = draw(st.integers(cut_one + 1, e_one - 3))
            exons = [[s_one, cut_one], [cut_two, e_one], [s_two, e_two]]
        elif e_two - s_two >= 8 and draw(st.integers(0, 2)) == 0:
            cut_one = draw(st.integers(s_two + 3, e_two - 4))
            cut_two = draw(st.integers(cut_one + 1, e_two - 3))
            exons = [[s_one, e_one], [s_two, cut_one], [cut_two, e_two]]
        add_gene(_genome_exons(origin, length, exons, draw(st.sampled_from([1, -1]))))
    # and genes anywhere on the record
    for gene in draw(gen.gene_layout(length, circular, max_genes=4, min_genes=0 if genes else 1)):
        add_gene(gene["loc"])
    for index, gene in enumerate(genes):
        gene["name"] = f"g{index}"
    return {"L": length, "circular": circular, "shape": shape, "genes": genes,
            "protoclusters": protoclusters, "subregions": subregions}


REQUIRED_CLASSES = [f"adjust_{branch}_{how}" for branch in BRANCHES for how in ("shift", "split")] + [
    "post_origin_offset", "gene_split", "gene_cross_shift", "gene_post_origin_shift", "region_whole", "region_cross",
    "region_plain", "subregions_only", "subregions_with_candidates", "single_candidate_hidden", "single_candidate_shown",
    "sideloaded_protocluster", "sideloaded_subregion", "twins_split_same_kind", "twins_split_mixed_kinds",
    "gene_intron_over_origin_shift", "gene_intron_over_origin_split",
    "core_strand_reverse_over_origin_shift", "core_strand_reverse_over_origin_split", "core_strand_reverse",
    "core_strand_zero_over_origin", "core_strand_none_over_origin",
]


def _memoised(body):
    """ The layout of one and the same region can differ from call to call: Region.get_unique_protoclusters sorts a
        set of features (hashed by address) with a comparison that is not a total order.  That is C17's subject; here
        it would only make Hypothesis report a violating case as flaky (a harness error instead of a violation), so
        within one process the first outcome observed for a spec is the outcome of that spec. """
    from vlib.runner import digest
    seen: dict = {}

    def wrapper(spec: dict):
        key = digest(spec)
        if key not in seen:
            try:
                seen[key] = (False, body(spec))
            except Violation as vio:
                seen[key] = (True, (vio.clause, vio.detail))
        failed, payload = seen[key]
        if failed:
            raise Violation(*payload)    # the only place a violation of this subcheck is raised from
        return payload
    return wrapper


def run(ctx) -> None:
    from vlib.runner import HarnessError
    ctx.hyp("layout", layouts(), max_examples=ctx.pick(1600, 32000), shards=ctx.pick(8, 16),
            body=_memoised(check_layout))
    stats = ctx.stats["layout"]
    if not stats.violations:
        floor = ctx.pick(3, 40)
        starved = [name for name in REQUIRED_CLASSES if stats.classes.get(name, 0) < floor]
        # reported, not fatal: a floor that trips at one seed must not turn the check into a harness error
        ctx.extra["starved_classes"] = starved
        if starved:
            print(f"NOTE: generator classes below the floor of {floor} at this seed: {starved}")
